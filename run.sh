#!/bin/bash
# usage: ./run.sh <property-id> quick|thorough      (cwd = /verif)
# Rebuilds the checker against /repo's current working tree, then runs one property check.
set -u
cd "$(dirname "$0")"
export GOFLAGS=-mod=mod GOPROXY=off GOSUMDB=off GOTOOLCHAIN=local CGO_ENABLED=0
export GOCACHE="${GOCACHE:-$HOME/.cache/go-build}"
id="$1"; tier="${2:-${VERIF_TIER:-quick}}"
mkdir -p bin evidence replays .work
# VERIF_REPO (optional, default /repo): build against another checkout - used only for background
# validation runs from a snapshot (vp run --with-repo); the registered commands never set it
MODFLAG=""
if [ -n "${VERIF_REPO:-}" ] && [ "$VERIF_REPO" != /repo ]; then
  sed "s|=> /repo\$|=> $VERIF_REPO|" go.mod > .work/alt.mod; cp go.sum .work/alt.sum 2>/dev/null || cp "$VERIF_REPO/go.sum" .work/alt.sum
  MODFLAG="-modfile=.work/alt.mod"
fi
if [ "$id" = C19 ]; then exec ./run19.sh "$tier"; fi
if ! go build $MODFLAG -o bin/vcheck ./cmd/vcheck 2>bin/build.log; then
  echo "SELF-CHECK property=$id build of the checker against /repo failed:"; cat bin/build.log
  exit 2
fi
if [ "$id" = C13 ]; then
  # stage 1: sequential determinism / input integrity (engine E1/E2); stage 2: the isolation
  # harnesses of engine E4 (overlapping executions on the same function objects), merged into the
  # same evidence file
  out1=$(./bin/vcheck C13 "$tier"); rc1=$?
  echo "$out1" | grep -v '^OK property=C13'
  mkdir -p .work
  python3 e4/gen_overlay.py 13 > .work/overlay13.log 2>&1 || { cat .work/overlay13.log; echo "SELF-CHECK property=C13 overlay generation failed"; exit 2; }
  go build $MODFLAG -overlay .work/overlay13.json -tags e4 -o bin/vcheck13 ./cmd/vcheck19 2> .work/build13.log || { cat .work/build13.log; echo "SELF-CHECK property=C13 E4 build (overlay) failed"; exit 2; }
  [ $rc1 = 0 ] || [ $rc1 = 1 ] || exit $rc1
  out2=$(./bin/vcheck13 "$tier" stage13); rc2=$?
  if [ $rc1 = 1 ]; then echo "$out2" | grep -v '^OK property=C13'; exit 1; fi
  echo "$out2"
  exit $rc2
fi
exec ./bin/vcheck "$id" "$tier"
