#!/bin/bash
# usage: ./run.sh <property-id> quick|thorough      (cwd = /verif)
# Rebuilds the checker against /repo's current working tree, then runs one property check.
set -u
cd "$(dirname "$0")"
export GOFLAGS=-mod=mod GOPROXY=off GOSUMDB=off GOTOOLCHAIN=local CGO_ENABLED=0
export GOCACHE="${GOCACHE:-$HOME/.cache/go-build}"
id="$1"; tier="${2:-${VERIF_TIER:-quick}}"
if [ "$id" = C19 ]; then exec ./run19.sh "$tier"; fi
mkdir -p bin evidence replays
if ! go build -o bin/vcheck ./cmd/vcheck 2>bin/build.log; then
  echo "SELF-CHECK property=$id build of the checker against /repo failed:"; cat bin/build.log
  exit 2
fi
exec ./bin/vcheck "$id" "$tier"
