module verif

go 1.20

require (
	github.com/ElrondNetwork/elrond-vm-common v0.0.0
	github.com/anishathalye/porcupine v1.3.0
)

require (
	github.com/ElrondNetwork/elrond-go-logger v1.0.4 // indirect
	github.com/gogo/protobuf v1.3.2 // indirect
	github.com/mitchellh/mapstructure v1.4.1 // indirect
)

replace github.com/ElrondNetwork/elrond-vm-common => /repo

replace github.com/gogo/protobuf => github.com/ElrondNetwork/protobuf v1.3.2
