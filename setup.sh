#!/bin/bash
# Builds the framework offline from files on disk (warms the Go build cache).
set -eu
cd "$(dirname "$0")"
export GOFLAGS=-mod=mod GOPROXY=off GOSUMDB=off GOTOOLCHAIN=local CGO_ENABLED=0
export GOCACHE="${GOCACHE:-$HOME/.cache/go-build}"
mkdir -p bin evidence replays
cp /repo/go.sum go.sum 2>/dev/null || true
go build -o bin/vcheck ./cmd/vcheck
echo "setup ok"
# warm the E4 (overlay) and race-pass builds
python3 e4/gen_overlay.py >/dev/null
mkdir -p .work
CGO_ENABLED=0 go build -overlay .work/overlay.json -tags e4 -o bin/vcheck19 ./cmd/vcheck19
CGO_ENABLED=1 go build -race -o bin/vrace19 ./cmd/vrace19
echo "setup ok (E4)"
