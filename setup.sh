#!/bin/bash
# Builds the framework offline from files on disk (warms the Go build cache).
set -eu
cd "$(dirname "$0")"
export GOFLAGS=-mod=mod GOPROXY=off GOSUMDB=off GOTOOLCHAIN=local CGO_ENABLED=0
export GOCACHE="${GOCACHE:-$HOME/.cache/go-build}"
mkdir -p bin evidence replays
cp /repo/go.sum go.sum 2>/dev/null || true
go build -o bin/vcheck ./cmd/vcheck
echo "setup ok"
