#!/usr/bin/env python3
"""Regenerates MANIFEST.json from the table below (kept next to the checks so that it cannot drift)."""
import json
props=[json.loads(l) for l in open('/verif/properties.jsonl')]
E1="explicit-state model checking of the implementation: breadth-first search with state hashing over real ProcessBuiltinFunction calls, each transition compared with a reference ledger"
C={
"C01":("model_checking","E1",E1,"all histories up to depth 3 (quick) / 4 (thorough) of the three transfer functions (every sender/destination pair incl. self, contracts, metachain; malformed, unknown and key-aliasing token ids; quantities 1/held/held+1; 1-3 entries with repeats and unequal quantities; attached calls), deliveries and refunds in every order, freeze/pause, metadata updates on kept copies, from 6 seed states incl. two with refunds in flight (plain and with attached call); a scripted 509-step history to nonces 256/257 followed by an exhaustive suffix; a second pass over realistic long token identifiers; oracles: exact debit/credit, message content, acceptance of protocol messages and refunds, per-key conservation sum on every leg","§5 C01"),
"C02":("model_checking","E1",E1,"histories to depth 4/5 over mint, burn, ESDTBurn, create, add-quantity, NFT burn, wipe by every account (role holder or not) with amounts 0/1/held/held+1, an 'others' profile executing every non-supply function, an 'amounts' profile with prior balances 0, 1, 2^64-1, 2^64, 100-byte max x amounts up to 101 bytes and leading-zero encodings x the return-after-error input flag, the high-nonce script, and a long-identifier pass; oracles: exact delta == reference, overdraft must fail, no negative balance, wipe only when frozen, create never over an existing entry","§5 C02"),
"C03":("model_checking","E1",E1,"role product: all 128 subsets of the 7 role names on the target tokens x subsets on other tokens (3 per subset quick, all 128 thorough) x 11 gated calls (create quantities 1, 2, leading-zero 2, 2^64, 2^64+1); histories over undisciplined set/unset role, hand-over (same/cross-shard, late delivery), every system-only function and destination-side layout issued by users and contracts, owner/DNS functions by owners and non-owners; oracle: success of a gated call implies the stored role list has the role; role messages and hand-overs have exactly their effect on the stored lists (multi-role messages, held and not-held roles, both orders); role lists, frozen/pause flags, counters, owner, user name, reward change only under the stated authority","§5 C03"),
"C04":("model_checking","E1",E1,"histories to depth 3/4 interleaving freeze/unfreeze/wipe/pause/unpause with every balance-changing function on both sides, all four call types, partial and whole holdings; frozen/paused read from the pre-state as the anchor defines them; restore clause checked differentially (toggle + inverse then every menu action behaves identically)","§5 C04"),
"C05":("model_checking","E1",E1,"frame condition: complete world diff of every successful step of a depth-2/3 search over the whole menu must lie inside the footprint computed from the input; SaveKeyValue product over ~450 keys (every prefix of the three protected layouts, case flips, substitutions, extensions, live keys) x 4 values x 4 caller patterns x argument counts","§5 C05"),
"C06":("exploration","E2","exhaustive enumeration of a finite input product executed on the real code","64 success classes (all 23 functions, both sides, refunds, no-op shapes, contract owners) each under all four call types x 3-5 schedules x GasProvided boundary sweep around the measured charge x GasLocked; 128-bit sum oracle","§5 C06"),
"C07":("model_checking","E1",E1,"histories to depth 5/7 with two collections: creates (quantity 1 and 2) by everyone, burn/transfer of the latest nonce, giving up older holdings, hand-over same/cross-shard, late and duplicate delivery; scripted history to nonce 257 with hand-overs in the suffix; ghost 'highest nonce ever issued' per token","§5 C07"),
"C08":("model_checking","E1",E1,"creation product of 432 metadata tuples (royalties 0/10000/10001/2^32+1, empty and 300-byte fields, 1-3 URIs) each hopped; route search to depth 5/7 over single/multi x same/cross-shard hops with destinations that do/do not hold the NFT, a non-payable destination (refunds) and metadata updates between hops; two-creators configurations (different hash, empty hash) for the hash-mismatch clause; high-nonce script; production protobuf encoder","§5 C08"),
"C09":("model_checking","E1",E1,"payability tables {payable, non-payable, error, mixed} x 3 functions x 5 token-kind shapes x 4 call types x argument counts min/min+1/min+2 x user/contract/system-contract callers x both sides (deliveries explored), destinations incl. metachain, self, 31/33-byte addresses; plus the same oracle on the C01 transfer search","§5 C09"),
"C10":("model_checking","E1",E1,"every emitted data string of the C01 search plus a 'shapes' profile (leading-zero/9-byte numbers, empty arguments, empty and odd function names) and hand-over/SetUserName/ESDTBurn forwards is parsed with the real call-arguments parser and compared with what the reference says was encoded; ParseESDTTransfers' report compared with the ledger diff of every accepted transfer on both sides","§5 C10"),
"C11":("exploration","E2","exhaustive enumeration of a finite input product executed on the real code","all argument lists of length 0-3 over a 14-item adversarial pool x 23 functions x 8 account patterns x call types x gas x pre-states; deviation-bounded (<=2 quick, <=3 thorough) edits of 53 sender-side base cases; closure under delivery/refund; allocation measured per call","§5 C11"),
"C12":("exploration","E2","exhaustive enumeration of a finite input product executed on the real code","every string of length <=9 (quick) / <=11 (thorough) over {x,@,0,a,A} into three parsers (totality everywhere, agreement with a reference tokenizer on the builders' image); ParseESDTTransfers over all argument lists of length <=5/6 over a 12-item pool plus every wrap-around residue in both count positions; builder/parser round trips","§5 C12"),
"C13":("model_checking","E1","differential re-execution attached to the explicit-state search: every transition executed on the long-lived, a fresh and a just-used function object, in another goroutine, after the same call on another state, with inputs carved from one sentinel-padded backing array","every transition of a depth-2/3 search over the whole menu (plus the transfer menu in thorough) from 4 seeds is executed 4+ more times; byte-identical canonical (output, post-world) required; deep comparison of the input incl. spare capacity","§5 C13"),
"C14":("exploration","E2","exhaustive enumeration of a finite input product executed on the real code","all buffers of length <=3 into the amount codec, 131k amounts through Size/MarshalTo/Unmarshal, full product of field domains for the 3 messages against an independent protobuf encoder, all byte strings <=2/3 over 256 values and <=5/6 over 13 wire bytes plus truncations/substitutions of valid encodings into the decoders","§5 C14"),
"C15":("model_checking","E1",E1,"representation invariant evaluated on every state reachable within depth 3/4 from 6 seeds over the whole menu under system-contract discipline","§5 C15"),
"C16":("model_checking","E1-style sequences","exhaustive enumeration of all schedule-change sequences up to a length bound applied through the real factory, charge of every priced function compared with a closed form","all sequences of <=2 (quick) / <=3 (thorough) changes over 6 accepted (3 all-distinct, 3 differing in one section) + 48 rejected schedules, each also with the epoch-gated functions inactive while the changes arrive; after each, 30 sender-side classes of the 15 priced functions executed","§5 C16"),
"C17":("fault_enumeration","E3","exhaustive single-fault enumeration: the k-th dependency call of every successful scenario fails","every successful scenario of the catalogue x every dependency call through one choke point","§5 C17"),
"C18":("model_checking","E1-style sequences","exhaustive enumeration of all epoch-notification sequences up to a length bound against containers built by the real factory; registry differential with name-specific scenarios","7^5 (quick) / 7^7 (thorough) sequences x 6 activation epochs, every prefix checked; 72 factory configurations incl. configuration-dependent behaviour; 23 binding scenarios incl. the construction-schedule price","§5 C18"),
"C19":("model_checking","E4","stateless model checking of the implementation: deviation-bounded DFS over all schedules (iterative preemption bounding) under a cooperative scheduler, sync and sync/atomic rewritten to shims by go build -overlay; recorded histories checked against sequential specifications with porcupine and a brute-force checker","all schedules with <=2 (quick) / <=3 (thorough) preemptions of ~3200 harnesses (H1 container programs, H2 atomics, H3/H4 pricing atomicity and deadlock freedom with reference charges measured sequentially on the real code, H5 isolation of overlapping executions on different tokens): every multiset of 2x2 and 3x1 operation programs over Get/Add/Replace/Remove/Len/Keys on colliding keys of the real function container; 2-3 thread programs over every atomic type; priced executions (NFT transfer, create, key-value save, multi-transfer, add-URI) concurrent with a factory gas-schedule change, an epoch notification or another execution (single-schedule charge, deadlock freedom); plus a separate free-running -race pass over the same bodies (dynamic detector, reported separately)","§5 C19"),
"C20":("exploration","E2","exhaustive enumeration of a finite input product executed on the real code","all 65536 byte pairs, all other short lengths, 8081 structured addresses x 6 identifiers, 7x7 subtraction pairs, all ordered pairs (and triples) of 1536/3072 generated output accounts against a reference merge","§5 C20"),
}
EXTRA={
"C01":" Additionally a 'wide-transfers' profile: quantities 2^63-1..2*2^64 in all encodings and entry lists of 255/256/257/300 (thorough up to 4096) entries, same-shard, cross-shard and refunded, delivered; every profile repeated one level shallower over realistic long token identifiers; the executions that build the seed states are checked by the same oracles.",
"C02":" Additionally the 'wide-transfers' profile and a supply clause on transfer legs (per-key total of balances + undelivered transfers unchanged).",
"C04":" Seeds include a holder whose address ends in 0xff; pause/unpause addressed to 0xff..ff and to the shard-flavoured system address; toggle-effect clause (an accepted control sets/clears the flag where the anchor defines it).",
"C05":" The key in every pair position of 3-6-pair calls and the same key repeated within one call.",
"C06":" 82 classes incl. destinations holding >=255 of the same nonce and attached calls with 2-5 arguments; under unit prices every gas value in [charge-64, charge].",
"C08":" Royalties with bit 31 set and 5/8-byte encodings; a refund returning into a holding that meanwhile received the other creator's NFT.",
"C09":" Callers on the metachain other than the ESDT system contract on the destination-side layouts of all three functions.",
"C10":" Additionally the 'wide-transfers' profile (word-boundary quantities, 255-300-entry lists).",
"C11":" Base states with role names stored twice and a rich sender; multi-transfers of 1-32 entries to four destinations; every base case grown by 1-40 further arguments.",
"C12":" All operation sequences of length <=6 (8) over one tx-data builder instance {Func, Bytes, Clear, b=Clear(), SetLast} against a (function, elements) model.",
"C13":" Second stage: engine E4 isolation harnesses (two executions of every kind on the same function objects naming different tokens, all schedules with <=2 preemptions), merged into the same evidence file.",
"C16":" Four variants per sequence (plain; functions inactive until after the changes; all / the first change before the container is created); 36 priced classes incl. attached calls with 2-5 arguments.",
"C17":" 90 scenarios / 320 fault points incl. accounts that already hold a role record.",
"C19":" Tight-gas harnesses (GasProvided between the charges under the two schedules: the whole outcome must equal the sequential outcome under one of them), 16 execution kinds incl. transfers to a local contract with an attached call, every kind against itself on another token.",
}
EXTRA2={
"C01": " A three-shard transfer profile; after the exhaustive levels a deterministic beam (128 states per level, 4 further levels; thorough 1024 x 6) continues every ledger profile (reported separately, never part of the exhaustive claim).",
"C02": " System account's own holdings are part of the balance view (known finding F11).",
"C03": " Seeds with look-alike role names before and after the real roles; single unsets and the hand-over in the product menu; a configuration without DNS addresses.",
"C04": " Flag-integrity clause: after every leg the stored frozen / paused flags equal what the system contract's accepted controls left (ghost record); refunds in flight in the seeds; tokens sent to the system account itself (known finding F11).",
"C05": " Keys with the protected prefix at every pair of positions, values differing in letter case, boundary nonces through every nonce-taking function, an aliased NFT collection at a two-byte nonce (clause: ESDTNFTCreate never writes over an existing entry).",
"C06": " GasLocked in {0, 7, own+1, charge+1, GasProvided+1, 2^62}.",
"C07": " Depth 7/9; a second scripted profile stopping at counter 256.",
"C08": " Depth 7/9; hashes differing in letter case / invalid UTF-8.",
"C09": " A contract-created NFT returning to its creator; locked gas and call value on the plain shapes.",
"C10": " Three-shard profile; hand-over at counter 256.",
"C11": " Early allocation probe; every transfer class again under an all-erroring payability oracle; delivery classes executed; contracts whose owner lives on another shard.",
"C12": " A second alphabet with non-ASCII / control bytes and the characters next to the hexadecimal ranges; ToString as an operation inside the builder sequences.",
"C13": " Seed-recipe determinism (fresh vs used function objects), reconfiguration determinism (24/96 equally configured factories), returned numbers changed in place before the re-executions.",
"C14": " Hostile varints for every tag, decoded values private, every bytes field at 127..2^21 bytes.",
"C15": " An 'all-functions' profile over the whole menu, C07's create / hand-over search under the invariant, whole-holding transfers flagged return-after-error.",
"C16": " Flat schedules and single-field deviations, schedules with unknown entries, forwarding classes with locked gas.",
"C17": " The same enumeration along the histories of a whole-menu search (depth 2/3): every successful transition re-executed once per dependency call with that call failing (about 2 M fault points quick).",
"C18": " Four header-timestamp policies per sequence; a second container from the same factory after the first was customised.",
"C19": " Flat-schedule harnesses (which also execute once more after the change completed), contract destinations without attached call.",
"C20": " Keys with the prefix at every pair of positions, byte pairs summing to a multiple of 256, spare capacity of merged-in transfer lists observed, storage updates with empty data."
}
EXTRA3={
"C01": " Calls naming the NFT-versus-NFT alias of a two-byte nonce (token S||01, nonce 1 against (S,257)) after the scripted history (exposed D11).",
"C02": " A contract that holds the fungible token and burns it (plain / asynchronous).",
"C05": " ESDTFreeze / ESDTUnFreeze of a single held NFT (token||nonce) in the frame menu.",
"C08": " A 'freeze-cycle' profile: single-NFT freeze toggles between the hops (no control call alters metadata).",
"C10": " Hand-over of a never-used create role (counter 0 = empty last argument).",
"C11": " Every transfer class also under an oracle answering 'not payable' without an error.",
"C12": " Typed builder elements (Byte, Str, Int, Int64, Bool, BigInt, composite helpers, GetLast / ToBytes): every sequence of <= 3 appends parsed back and compared with the documented values.",
"C13": " A contract's burn / transfers with non-minimal amounts.",
"C14": " One holder decoded into repeatedly (Reset + Unmarshal): every ordered pair of a spread of values of each message type.",
"C15": " Single-NFT freeze toggles on held NFTs.",
"C17": " A result that is neither Ok nor an error after a failed dependency is a violation too.",
"C19": " Four-thread one-operation families (container; Counter / Flag) at preemption bound 1 (thorough 2); every draining program also from an initially empty container; the free-running pass runs under a time limit and a hang is reported.",
}
EXTRA4={
"C01": " Calls an ordinary account signs in the arrival layout of a cross-shard transfer (both accounts present).",
"C02": " The same forged arrivals; sums of AddQuantity crossing 2^64 were already in the amounts profile.",
"C03": " Every gated call again with the refund flag and under the callback / transfer-and-execute call types.",
"C04": " Repeated controls (un-freeze of a non-frozen account, freeze of a frozen one, likewise pause); same-shard returns by a local contract flagged return-after-error (exposed D12).",
"C05": " Calls naming (S,258) against the aliased holding (S||01,2); a freeze marker on the key of the nonce issued next.",
"C07": " A contract as creator handing over across shards; role grants while a hand-over is in flight; the returned nonce read through GetFirstReturnData.",
"C08": " Forged arrivals; two NFTs with rich / sparse metadata in one multi-transfer.",
"C10": " A continuation carries the call type of the call it continues (plain transfers under every call type); cross-shard SetUserName with exactly its price ... twice its price.",
"C11": " Freeze / un-freeze / wipe on the system account after a pause; freeze markers under dash-bearing identifiers, wiped and released.",
"C12": " The enumeration runs in a child process: a panic or fatal runtime fault inside the library is reported as a violation.",
"C13": " Second stage also runs H6: every kind against itself with other argument sizes, both successful, each as alone (gas, effect, emitted data).",
"C14": " MarshalTo into a longer buffer; child process as for C12.",
"C15": " Zero-quantity transfers through all three functions.",
"C16": " Priced classes whose attributes / URI equal the stored ones; a second factory refusing an accepted schedule is a violation.",
"C19": " H6 (see C13); the explorer runs as six processes over disjoint harness sub-lists.",
"C20": " A second code / metadata value and a distinct balance among the accounts merged last; child process as for C12.",
}
for k,v in EXTRA4.items():
    EXTRA3[k]=EXTRA3.get(k,"")+v
for k,v in EXTRA3.items():
    EXTRA2[k]=EXTRA2.get(k,"")+v
for k,v in EXTRA2.items():
    EXTRA[k]=EXTRA.get(k,"")+v
for k,v in EXTRA.items():
    l,e,t,text,ref=C[k]
    C[k]=(l,e,t,text+v,ref)
notes={
 "_":"",
 "model_checking":"bounded: small universe of DESIGN.md §4 and the stated depth; environment model A1-A10 (the harness plays the node); the reference ledger is trusted",
 "exploration":"exhaustive within the stated finite product only; the reference implementations (tokenizer, protobuf encoder, merge, classifiers, closed-form gas) are trusted",
 "fault_enumeration":"single fault per execution; storage reads and the pause lookup are excluded as fail-soft by interface design",
}
checks=[]
for pid,(level,engine,tech,text,ref) in sorted(C.items()):
    checks.append({"property_id":pid,"quick_cmd":f"./run.sh {pid} quick","thorough_cmd":f"./run.sh {pid} thorough","evidence_file":f"/verif/evidence/{pid}.json",
      "replay_cmd_template":("./bin/vcheck19 replay {path}" if pid=="C19" else "./bin/vcheck replay {path}"),"engine":engine,
      "level_claimed":{"category":level,"text":text,"design_ref":"DESIGN.md "+ref},"level_note":notes[level],"technique":tech})
na=[{"property_id":p["id"],"reason":"check under construction in this session (planned in DESIGN.md §5 C19: controlled scheduler + schedule exploration); not yet registered"} for p in props if p["id"] not in C]
m={"version":1,"setup_cmd":"./setup.sh",
 "hooks":{"guard":"verif","enable":"none needed: every check drives exported constructors and injected interfaces of /repo's current tree; E4 rewrites the sync imports of container/, atomic/, builtInFunctions/ into a go build -overlay generated from the current tree at check time (e4/gen_overlay.py); no source hook is committed (source_commits empty)","baseline_off_cmd":"cd /repo && go test -mod=mod -json -vet=off -count=1 -timeout 25m ./...","source_commits":[],"add_only":True},
 "engines":[
  {"name":"E1","path":"engine/explore + engine/world + engine/spec","serves_properties":[p for p,v in C.items() if v[1].startswith("E1")],"kind_free_text":"explicit-state BFS (state hashing, 16 workers) over real built-in calls on an owned in-memory multi-shard ledger; reference ledger as specification; replayable histories"},
  {"name":"E2","path":"checks/enum.go + checks/c06.go c11.go c12.go c14.go c20.go","serves_properties":[p for p,v in C.items() if v[1]=="E2"],"kind_free_text":"exhaustive odometers over finite input products with independent reference implementations"},
  {"name":"E3","path":"checks/c17.go + engine/world (dep choke point)","serves_properties":["C17"],"kind_free_text":"k-th dependency fault enumerator"},
  {"name":"E4","path":"engine/sched (vsched, vsync, vatomic) + e4/ + cmd/vcheck19 + cmd/vrace19","serves_properties":["C19","C13"],"kind_free_text":"cooperative scheduler + deviation-bounded DFS over schedules; go build -overlay rewrites the library's sync imports from /repo's current tree; porcupine v1.3.0 for linearizability; separate -race pass"}],
 "checks":checks,"not_applicable":na,
 "notes":"All checks rebuild bin/vcheck from /repo's working tree (run.sh). Genuine defects found on the pinned tree were repaired by 'fix:' commits in /repo and are listed as fixed in known_findings.json; the one recorded known finding is C10/empty-call-name. mutants/ holds test-suite-green property-breaking changes every check is shown to catch (mutants/run.sh)."}
json.dump(m,open('/verif/MANIFEST.json','w'),indent=1)
print(len(checks),"checks;",len(na),"not applicable")
