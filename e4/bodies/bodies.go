// Package bodies holds the thread bodies, recorded histories and sequential specifications of the
// C19 harnesses. It does not depend on the scheduler: the same bodies run under engine E4
// (cooperative scheduler, all schedules within a preemption bound) and, compiled without the
// overlay and with -race, free on OS threads in the separate race pass.
package bodies

import (
	"fmt"
	"math/big"
	"reflect"
	"sort"
	"strings"

	vmcommon "github.com/ElrondNetwork/elrond-vm-common"
	vmatomic "github.com/ElrondNetwork/elrond-vm-common/atomic"
	"github.com/ElrondNetwork/elrond-vm-common/builtInFunctions"
	"github.com/ElrondNetwork/elrond-vm-common/data/esdt"
	"github.com/anishathalye/porcupine"
)

// Hook is called at every environment (dependency) call; engine E4 makes it a scheduling point.
var Hook func(kind string)

func hook(kind string) {
	if Hook != nil {
		Hook(kind)
	}
}

// Tick returns a logical timestamp (E4: the scheduler's clock; race pass: an atomic counter).
var Tick func() int64

// Rec is one recorded operation of a history.
type Rec struct {
	Thread int
	In     string
	Out    string
	Call   int64
	Ret    int64
}

// History is the per-execution record; each thread appends only to its own slice.
type History struct {
	Per [][]Rec
}

// NewHistory returns a history for n threads.
func NewHistory(n int) *History { return &History{Per: make([][]Rec, n)} }

func (h *History) do(thread int, in string, f func() string) {
	c := Tick()
	out := f()
	r := Tick()
	h.Per[thread] = append(h.Per[thread], Rec{Thread: thread, In: in, Out: out, Call: c, Ret: r})
}

// All returns every record.
func (h *History) All() []Rec {
	var out []Rec
	for _, p := range h.Per {
		out = append(out, p...)
	}
	sort.Slice(out, func(i, j int) bool { return out[i].Call < out[j].Call })
	return out
}

// Canon is a canonical string of the history's partial order and results: two executions with
// the same string are the same history for linearizability purposes.
func (h *History) Canon() string {
	all := h.All()
	// replace absolute timestamps by their rank
	var ts []int64
	for _, r := range all {
		ts = append(ts, r.Call, r.Ret)
	}
	sort.Slice(ts, func(i, j int) bool { return ts[i] < ts[j] })
	rank := map[int64]int{}
	for i, t := range ts {
		rank[t] = i
	}
	var sb strings.Builder
	for _, r := range all {
		fmt.Fprintf(&sb, "T%d %s->%s [%d,%d];", r.Thread, r.In, r.Out, rank[r.Call], rank[r.Ret])
	}
	return sb.String()
}

// ---------------------------------------------------------------------------------------------
// H1: the function container as a linearizable map

type stubFn struct{ id string }

func (s *stubFn) ProcessBuiltinFunction(_, _ vmcommon.UserAccountHandler, _ *vmcommon.ContractCallInput) (*vmcommon.VMOutput, error) {
	return nil, nil
}
func (s *stubFn) SetNewGasConfig(_ *vmcommon.GasCost) {}
func (s *stubFn) IsActive() bool                      { return true }
func (s *stubFn) IsInterfaceNil() bool                { return s == nil }

// MapOp is one operation of an H1 program.
type MapOp struct {
	Kind string // Get, Add, Replace, Remove, Len, Keys
	Key  string
}

func (o MapOp) String() string {
	if o.Key == "" {
		return o.Kind
	}
	return o.Kind + "(" + o.Key + ")"
}

// MapAlphabet is the operation alphabet on two colliding keys.
func MapAlphabet(full bool) []MapOp {
	a := []MapOp{{"Get", "k1"}, {"Add", "k1"}, {"Replace", "k1"}, {"Remove", "k1"}, {"Len", ""}, {"Keys", ""}}
	if full {
		a = append(a, MapOp{"Get", "k2"}, MapOp{"Add", "k2"}, MapOp{"Remove", "k2"})
	}
	return a
}

// NewContainer returns the container in its initial state {k2: v0}.
func NewContainer() vmcommon.BuiltInFunctionContainer {
	c := builtInFunctions.NewBuiltInFunctionContainer()
	_ = c.Add("k2", &stubFn{id: "v0"})
	return c
}

// NewEmptyContainer returns a container that holds nothing (a Remove can drain it).
func NewEmptyContainer() vmcommon.BuiltInFunctionContainer {
	return builtInFunctions.NewBuiltInFunctionContainer()
}

// MapBodies builds the thread bodies of an H1 program.
func MapBodies(c vmcommon.BuiltInFunctionContainer, prog [][]MapOp, h *History) []func() {
	var out []func()
	for ti, ops := range prog {
		ti, ops := ti, ops
		out = append(out, func() {
			for oi, op := range ops {
				val := fmt.Sprintf("t%d.%d", ti, oi)
				op := op
				h.do(ti, op.String()+"="+val, func() string {
					switch op.Kind {
					case "Get":
						f, err := c.Get(op.Key)
						if err != nil {
							return "absent"
						}
						return f.(*stubFn).id
					case "Add":
						if err := c.Add(op.Key, &stubFn{id: val}); err != nil {
							return "exists"
						}
						return "added"
					case "Replace":
						_ = c.Replace(op.Key, &stubFn{id: val})
						return "ok"
					case "Remove":
						c.Remove(op.Key)
						return "ok"
					case "Len":
						return fmt.Sprint(c.Len())
					case "Keys":
						var ks []string
						for k := range c.Keys() {
							ks = append(ks, k)
						}
						sort.Strings(ks)
						return strings.Join(ks, ",")
					}
					return "?"
				})
			}
		})
	}
	return out
}

func parseMapState(s string) map[string]string {
	m := map[string]string{}
	if s == "" {
		return m
	}
	for _, kv := range strings.Split(s, ";") {
		p := strings.SplitN(kv, "=", 2)
		m[p[0]] = p[1]
	}
	return m
}

func fmtMapState(m map[string]string) string {
	var ks []string
	for k := range m {
		ks = append(ks, k)
	}
	sort.Strings(ks)
	var parts []string
	for _, k := range ks {
		parts = append(parts, k+"="+m[k])
	}
	return strings.Join(parts, ";")
}

// MapStep is the sequential map specification: (state, input) -> (output, state').
func MapStep(state string, in string) (out string, next string) {
	m := parseMapState(state)
	p := strings.SplitN(in, "=", 2)
	opStr, val := p[0], p[1]
	kind, key := opStr, ""
	if i := strings.Index(opStr, "("); i >= 0 {
		kind, key = opStr[:i], opStr[i+1:len(opStr)-1]
	}
	switch kind {
	case "Get":
		if v, ok := m[key]; ok {
			return v, state
		}
		return "absent", state
	case "Add":
		if _, ok := m[key]; ok {
			return "exists", state
		}
		m[key] = val
		return "added", fmtMapState(m)
	case "Replace":
		m[key] = val
		return "ok", fmtMapState(m)
	case "Remove":
		delete(m, key)
		return "ok", fmtMapState(m)
	case "Len":
		return fmt.Sprint(len(m)), state
	case "Keys":
		var ks []string
		for k := range m {
			ks = append(ks, k)
		}
		sort.Strings(ks)
		return strings.Join(ks, ","), state
	}
	return "?", state
}

// ---------------------------------------------------------------------------------------------
// H2: atomics

// AtomOp is one operation on one of the atomic types.
type AtomOp struct{ Kind string }

// AtomAlphabets lists, per type, the operations of H2.
var AtomAlphabets = map[string][]string{
	"Counter": {"Increment", "Add2", "Subtract1", "Decrement", "Reset", "Set5", "Get", "GetUint64"},
	"Flag":    {"Set", "Unset", "ToggleTrue", "ToggleFalse", "IsSet"},
	"Int64":   {"Set", "Get"},
	"Uint32":  {"Set", "Get"},
	"Uint64":  {"Set", "Get"},
	"String":  {"Set", "Get"},
}

// Atoms is one instance of each atomic type.
type Atoms struct {
	Counter vmatomic.Counter
	Flag    vmatomic.Flag
	Int64   vmatomic.Int64
	Uint32  vmatomic.Uint32
	Uint64  vmatomic.Uint64
	String  vmatomic.String
}

// AtomBodies builds the thread bodies of an H2 program on type typ.
func AtomBodies(a *Atoms, typ string, prog [][]string, h *History) []func() {
	var out []func()
	for ti, ops := range prog {
		ti, ops := ti, ops
		out = append(out, func() {
			for oi, op := range ops {
				op := op
				v := int64(10*(ti+1) + oi)
				h.do(ti, fmt.Sprintf("%s=%d", op, v), func() string {
					switch typ {
					case "Counter":
						switch op {
						case "Increment":
							return fmt.Sprint(a.Counter.Increment())
						case "Add2":
							return fmt.Sprint(a.Counter.Add(2))
						case "Subtract1":
							return fmt.Sprint(a.Counter.Subtract(1))
						case "Decrement":
							return fmt.Sprint(a.Counter.Decrement())
						case "Reset":
							return fmt.Sprint(a.Counter.Reset())
						case "Set5":
							a.Counter.Set(5)
							return "ok"
						case "Get":
							return fmt.Sprint(a.Counter.Get())
						case "GetUint64":
							return fmt.Sprint(a.Counter.GetUint64())
						}
					case "Flag":
						switch op {
						case "Set":
							return fmt.Sprint(a.Flag.Set())
						case "Unset":
							a.Flag.Unset()
							return "ok"
						case "ToggleTrue":
							a.Flag.Toggle(true)
							return "ok"
						case "ToggleFalse":
							a.Flag.Toggle(false)
							return "ok"
						case "IsSet":
							return fmt.Sprint(a.Flag.IsSet())
						}
					case "Int64":
						if op == "Set" {
							a.Int64.Set(v)
							return "ok"
						}
						return fmt.Sprint(a.Int64.Get())
					case "Uint32":
						if op == "Set" {
							a.Uint32.Set(uint32(v))
							return "ok"
						}
						return fmt.Sprint(a.Uint32.Get())
					case "Uint64":
						if op == "Set" {
							a.Uint64.Set(uint64(v))
							return "ok"
						}
						return fmt.Sprint(a.Uint64.Get())
					case "String":
						if op == "Set" {
							a.String.Set(fmt.Sprint(v))
							return "ok"
						}
						return a.String.Get()
					}
					return "?"
				})
			}
		})
	}
	return out
}

// AtomStep is the sequential specification of the atomic types. The state is a decimal string
// (the String type's state is the stored string, "" initially).
func AtomStep(typ string) func(state string, in string) (string, string) {
	return func(state string, in string) (string, string) {
		p := strings.SplitN(in, "=", 2)
		op, val := p[0], p[1]
		atoi := func(s string) int64 {
			var n int64
			fmt.Sscan(s, &n)
			return n
		}
		switch typ {
		case "Counter":
			n := atoi(state)
			switch op {
			case "Increment":
				return fmt.Sprint(n + 1), fmt.Sprint(n + 1)
			case "Add2":
				return fmt.Sprint(n + 2), fmt.Sprint(n + 2)
			case "Subtract1", "Decrement":
				return fmt.Sprint(n - 1), fmt.Sprint(n - 1)
			case "Reset":
				return fmt.Sprint(n), "0"
			case "Set5":
				return "ok", "5"
			case "Get":
				return fmt.Sprint(n), state
			case "GetUint64":
				if n < 0 {
					return "0", state
				}
				return fmt.Sprint(n), state
			}
		case "Flag":
			set := state == "1"
			switch op {
			case "Set":
				return fmt.Sprint(set), "1"
			case "Unset", "ToggleFalse":
				return "ok", "0"
			case "ToggleTrue":
				return "ok", "1"
			case "IsSet":
				return fmt.Sprint(set), state
			}
		case "String":
			if op == "Set" {
				return "ok", val
			}
			return state, state
		default:
			if op == "Set" {
				return "ok", val
			}
			if state == "" {
				return "0", state
			}
			return state, state
		}
		return "?", state
	}
}

// AtomInit is the initial model state of typ.
func AtomInit(typ string) string {
	switch typ {
	case "String", "Int64", "Uint32", "Uint64":
		return ""
	}
	return "0"
}

// ---------------------------------------------------------------------------------------------
// linearizability: porcupine, cross-checked by brute force over the few operations

// Linearizable checks h against the sequential specification step from init.
func Linearizable(h *History, init string, step func(state, in string) (string, string)) (porc bool, brute bool) {
	all := h.All()
	model := porcupine.Model{
		Init: func() interface{} { return init },
		Step: func(state, input, output interface{}) (bool, interface{}) {
			out, next := step(state.(string), input.(string))
			return out == output.(string), next
		},
		Equal: func(a, b interface{}) bool { return a.(string) == b.(string) },
	}
	var ops []porcupine.Operation
	for _, r := range all {
		ops = append(ops, porcupine.Operation{ClientId: r.Thread, Input: r.In, Output: r.Out, Call: r.Call, Return: r.Ret})
	}
	porc = porcupine.CheckOperations(model, ops)
	// brute force: some permutation consistent with real-time order explains all outputs
	n := len(all)
	used := make([]bool, n)
	var rec func(state string, done int) bool
	rec = func(state string, done int) bool {
		if done == n {
			return true
		}
		for i := 0; i < n; i++ {
			if used[i] {
				continue
			}
			// i may be next only if no unused operation returned before i was called
			ok := true
			for j := 0; j < n; j++ {
				if j != i && !used[j] && all[j].Ret < all[i].Call {
					ok = false
					break
				}
			}
			if !ok {
				continue
			}
			out, next := step(state, all[i].In)
			if out != all[i].Out {
				continue
			}
			used[i] = true
			if rec(next, done+1) {
				used[i] = false
				return true
			}
			used[i] = false
		}
		return false
	}
	brute = rec(init, 0)
	return
}

// ---------------------------------------------------------------------------------------------
// H3 / H4: executions concurrent with gas-schedule changes and epoch notifications

type liteAccount struct {
	addr    []byte
	storage map[string][]byte
}

func (a *liteAccount) GetCodeMetadata() []byte                         { return nil }
func (a *liteAccount) GetCodeHash() []byte                             { return nil }
func (a *liteAccount) GetRootHash() []byte                             { return nil }
func (a *liteAccount) AccountDataHandler() vmcommon.AccountDataHandler { return a }
func (a *liteAccount) AddToBalance(*big.Int) error                     { hook("AddToBalance"); return nil }
func (a *liteAccount) GetBalance() *big.Int                            { return big.NewInt(0) }
func (a *liteAccount) ClaimDeveloperRewards([]byte) (*big.Int, error)  { return big.NewInt(0), nil }
func (a *liteAccount) GetDeveloperReward() *big.Int                    { return big.NewInt(0) }
func (a *liteAccount) ChangeOwnerAddress([]byte, []byte) error         { return nil }
func (a *liteAccount) SetOwnerAddress([]byte)                          {}
func (a *liteAccount) GetOwnerAddress() []byte                         { return nil }
func (a *liteAccount) SetUserName([]byte)                              {}
func (a *liteAccount) GetUserName() []byte                             { return nil }
func (a *liteAccount) AddressBytes() []byte                            { return a.addr }
func (a *liteAccount) IncreaseNonce(uint64)                            {}
func (a *liteAccount) GetNonce() uint64                                { return 0 }
func (a *liteAccount) IsInterfaceNil() bool                            { return a == nil }
func (a *liteAccount) RetrieveValue(key []byte) ([]byte, error) {
	hook("RetrieveValue")
	return append([]byte(nil), a.storage[string(key)]...), nil
}
func (a *liteAccount) SaveKeyValue(key, value []byte) error {
	hook("SaveKeyValue")
	if len(value) == 0 {
		delete(a.storage, string(key))
	} else {
		a.storage[string(key)] = append([]byte(nil), value...)
	}
	return nil
}

func newLiteAccount(addr []byte) *liteAccount {
	return &liteAccount{addr: append([]byte(nil), addr...), storage: map[string][]byte{}}
}

// liteAdapter hands out a fresh, empty account object per load: executions share nothing through
// the environment, only the function objects of the container.
type liteAdapter struct{}

func (liteAdapter) LoadAccount(address []byte) (vmcommon.AccountHandler, error) {
	hook("LoadAccount")
	return newLiteAccount(address), nil
}
func (liteAdapter) GetExistingAccount(address []byte) (vmcommon.AccountHandler, error) {
	return newLiteAccount(address), nil
}
func (liteAdapter) SaveAccount(vmcommon.AccountHandler) error { hook("SaveAccount"); return nil }
func (liteAdapter) RemoveAccount([]byte) error                { return nil }
func (liteAdapter) Commit() ([]byte, error)                   { return nil, nil }
func (liteAdapter) JournalLen() int                           { return 0 }
func (liteAdapter) RevertToSnapshot(int) error                { return nil }
func (liteAdapter) GetNumCheckpoints() uint32                 { return 0 }
func (liteAdapter) GetCode([]byte) []byte                     { return nil }
func (liteAdapter) RootHash() ([]byte, error)                 { return nil, nil }
func (liteAdapter) RecreateTrie([]byte) error                 { return nil }
func (liteAdapter) IsInterfaceNil() bool                      { return false }

type liteCoord struct{}

func (liteCoord) NumberOfShards() uint32 { return 2 }
func (liteCoord) ComputeId(a []byte) uint32 {
	if len(a) == 0 {
		return 0
	}
	return uint32(a[len(a)-1]) % 2
}
func (liteCoord) SelfId() uint32                        { return 0 }
func (c liteCoord) SameShard(a, b []byte) bool          { return c.ComputeId(a) == c.ComputeId(b) }
func (liteCoord) CommunicationIdentifier(uint32) string { return "" }
func (liteCoord) IsInterfaceNil() bool                  { return false }

type liteMarshal struct{}

func (liteMarshal) Marshal(obj interface{}) ([]byte, error) {
	hook("Marshal")
	return obj.(interface{ Marshal() ([]byte, error) }).Marshal()
}
func (liteMarshal) Unmarshal(obj interface{}, buff []byte) error {
	hook("Unmarshal")
	o := obj.(interface {
		Reset()
		Unmarshal([]byte) error
	})
	o.Reset()
	return o.Unmarshal(buff)
}
func (liteMarshal) IsInterfaceNil() bool { return false }

type litePayable struct{}

func (litePayable) IsPayable([]byte) (bool, error) { hook("IsPayable"); return true, nil }
func (litePayable) IsInterfaceNil() bool           { return false }

// Notifier records the epoch subscribers.
type Notifier struct {
	Subs []vmcommon.EpochSubscriberHandler
}

func (n *Notifier) RegisterNotifyHandler(h vmcommon.EpochSubscriberHandler) {
	n.Subs = append(n.Subs, h)
}
func (n *Notifier) IsInterfaceNil() bool { return n == nil }

// Schedule builds a gas schedule whose fields are pairwise distinct: base + index.
func Schedule(base uint64) map[string]map[string]uint64 {
	bi := []string{"ChangeOwnerAddress", "ClaimDeveloperRewards", "SaveUserName", "SaveKeyValue", "ESDTTransfer", "ESDTBurn", "ESDTLocalMint", "ESDTLocalBurn", "ESDTNFTCreate", "ESDTNFTAddQuantity", "ESDTNFTBurn", "ESDTNFTTransfer", "ESDTNFTChangeCreateOwner", "ESDTNFTMultiTransfer", "ESDTNFTAddURI", "ESDTNFTUpdateAttributes"}
	bo := []string{"StorePerByte", "ReleasePerByte", "DataCopyPerByte", "PersistPerByte", "CompilePerByte", "AoTPreparePerByte"}
	s := map[string]map[string]uint64{vmcommon.BuiltInCostString: {}, vmcommon.BaseOperationCostString: {}}
	for i, f := range bi {
		s[vmcommon.BuiltInCostString][f] = base + uint64(i)
	}
	for i, f := range bo {
		s[vmcommon.BaseOperationCostString][f] = base + 100 + uint64(i)
	}
	return s
}

// FlatSchedule is a schedule whose fields all equal v, except that the per-byte field named in dev
// (if any) and every function price are raised by delta - a change that moves some prices and
// keeps others equal.
func FlatSchedule(v uint64, dev string, delta uint64) map[string]map[string]uint64 {
	s := Schedule(0)
	for sec := range s {
		for f := range s[sec] {
			s[sec][f] = v
		}
	}
	if dev != "" {
		s[vmcommon.BaseOperationCostString][dev] = v + delta
		for f := range s[vmcommon.BuiltInCostString] {
			s[vmcommon.BuiltInCostString][f] = v + delta
		}
	}
	return s
}

// NewLiteOn builds the container under the given schedule.
func NewLiteOn(sched map[string]map[string]uint64) *Lite {
	n := &Notifier{}
	f, err := builtInFunctions.NewBuiltInFunctionsFactory(builtInFunctions.ArgsCreateBuiltInFunctionContainer{
		GasMap: sched, MapDNSAddresses: map[string]struct{}{}, Marshalizer: liteMarshal{}, Accounts: liteAdapter{},
		ShardCoordinator: liteCoord{}, EpochNotifier: n, ESDTNFTImprovementV1ActivationEpoch: 1,
	})
	if err != nil {
		panic(err)
	}
	c, err := f.CreateBuiltInFunctionContainer()
	if err != nil {
		panic(err)
	}
	if err := builtInFunctions.SetPayableHandler(c, litePayable{}); err != nil {
		panic(err)
	}
	for _, s := range n.Subs {
		s.EpochConfirmed(1, 0)
	}
	return &Lite{Factory: f, Container: c, Notifier: n}
}

// Lite is a container built by the real factory over the share-nothing environment.
type Lite struct {
	Factory interface {
		GasScheduleChange(map[string]map[string]uint64)
	}
	Container vmcommon.BuiltInFunctionContainer
	Notifier  *Notifier
}

// NewLite builds the container under schedule S1 = Schedule(1000) with activation epoch 1,
// already confirmed.
func NewLite() *Lite { return NewLiteWith(1000) }

// NewLiteWith builds the container under Schedule(base).
func NewLiteWith(base uint64) *Lite {
	n := &Notifier{}
	f, err := builtInFunctions.NewBuiltInFunctionsFactory(builtInFunctions.ArgsCreateBuiltInFunctionContainer{
		GasMap: Schedule(base), MapDNSAddresses: map[string]struct{}{}, Marshalizer: liteMarshal{}, Accounts: liteAdapter{},
		ShardCoordinator: liteCoord{}, EpochNotifier: n, ESDTNFTImprovementV1ActivationEpoch: 1,
	})
	if err != nil {
		panic(err)
	}
	c, err := f.CreateBuiltInFunctionContainer()
	if err != nil {
		panic(err)
	}
	if err := builtInFunctions.SetPayableHandler(c, litePayable{}); err != nil {
		panic(err)
	}
	for _, s := range n.Subs {
		s.EpochConfirmed(1, 0)
	}
	return &Lite{Factory: f, Container: c, Notifier: n}
}

func addr(c byte, shard byte) []byte {
	a := make([]byte, 32)
	for i := range a {
		a[i] = 0x11
	}
	a[0], a[31] = c, shard
	return a
}

// ExecKinds are the priced executions of H3.
var ExecKinds = []string{"ESDTNFTTransfer", "ESDTNFTCreate", "SaveKeyValue", "MultiESDTNFTTransfer", "ESDTNFTAddURI",
	"ESDTNFTTransfer/same-shard", "MultiESDTNFTTransfer/same-shard", "ESDTTransfer", "ESDTLocalMint", "ESDTNFTUpdateAttributes",
	"ESDTTransfer/to-contract-with-call", "ESDTNFTTransfer/same-shard-contract-with-call", "MultiESDTNFTTransfer/same-shard-contract-with-call",
	"ESDTLocalBurn", "ESDTNFTAddQuantity", "ESDTNFTBurn",
	"ESDTNFTTransfer/same-shard-contract-no-call", "MultiESDTNFTTransfer/same-shard-contract-no-call"}

// Gas is the ample gas of the reference executions.
const Gas = uint64(1_000_000_000)

// RefOutcome is the complete outcome of kind executed alone under Schedule(base) with the given
// gas (success or the error text, gas left, gas consumed).
func RefOutcome(kind string, base, gas uint64) ExecResult {
	return ExecGas(NewLiteWith(base), kind, "S", gas)
}

// Same reports whether two executions had the same observable outcome.
func (r ExecResult) Same(o ExecResult) bool {
	return r.OK == o.OK && r.Err == o.Err && r.Consumed == o.Consumed && r.Remaining == o.Remaining && r.Forwarded == o.Forwarded
}

// RefCharge is what kind consumes when executed alone under Schedule(base) (measured on the real
// code, sequentially): an execution overlapping a schedule change must consume one of the two
// reference charges in its entirety.
func RefCharge(kind string, base uint64) uint64 {
	r := Exec(NewLiteWith(base), kind)
	if !r.OK {
		panic("reference execution of " + kind + " failed: " + r.Err)
	}
	return r.Consumed
}

// ExecResult is what one execution observed.
type ExecResult struct {
	Kind     string
	OK       bool
	Err      string
	Consumed uint64
	Payload  uint64 // bytes of NFT payload in the emitted message
	ArgBytes uint64
	// Remaining is the gas the output leaves, Forwarded the gas handed to output transfers
	Remaining uint64
	Forwarded uint64
	// Digest is the sender's storage after the call plus the data of every output transfer
	Digest string
}

// Exec runs one priced execution of the given kind on fresh accounts against l's container.
func Exec(l *Lite, kind string) ExecResult { return ExecTok(l, kind, "S") }

// ExecTok is Exec naming token tok in the call. The sender holds NFT, roles and counter for the
// token "S" only: with any other (equally long) name the role-gated kinds must be refused and the
// transfers must fail for lack of a holding - in every schedule.
func ExecTok(l *Lite, kind string, tok string) ExecResult { return ExecGas(l, kind, tok, Gas) }

// ExecGas is ExecTok with the given gas.
func ExecGas(l *Lite, kind string, tok string, gas uint64) ExecResult {
	return execGas(l, kind, tok, gas, false)
}

// ExecSized runs kind on the held token with its usual arguments (big = false) or with arguments of
// other sizes / quantities (big = true): two such executions overlapping on the same function object
// must each give what they give alone.
func ExecSized(l *Lite, kind string, big bool) ExecResult { return execGas(l, kind, "S", Gas, big) }

func execGas(l *Lite, kind string, tok string, gas uint64, big2 bool) ExecResult {
	snd := newLiteAccount(addr('a', 0))
	dst := addr('c', 1)
	nft := &esdt.ESDigitalToken{Type: 1, Value: big.NewInt(3), TokenMetaData: &esdt.MetaData{Nonce: 1, Name: []byte("name"), Creator: snd.addr, Hash: []byte("hash"), URIs: [][]byte{[]byte("uri")}, Attributes: []byte("attr")}}
	raw, _ := nft.Marshal()
	snd.storage["ELRONDesdtS\x01"] = raw
	fung, _ := (&esdt.ESDigitalToken{Value: big.NewInt(9)}).Marshal()
	snd.storage["ELRONDesdtF"] = fung
	roles, _ := (&esdt.ESDTRoles{Roles: [][]byte{[]byte(vmcommon.ESDTRoleNFTCreate), []byte(vmcommon.ESDTRoleNFTAddURI), []byte(vmcommon.ESDTRoleNFTUpdateAttributes),
		[]byte(vmcommon.ESDTRoleNFTAddQuantity), []byte(vmcommon.ESDTRoleNFTBurn)}}).Marshal()
	snd.storage["ELRONDroleesdtS"] = roles
	snd.storage["ELRONDnonceS"] = []byte{1}
	snd.storage["k1"] = []byte("vv")
	roles, _ = (&esdt.ESDTRoles{Roles: [][]byte{[]byte(vmcommon.ESDTRoleLocalMint), []byte(vmcommon.ESDTRoleLocalBurn)}}).Marshal()
	snd.storage["ELRONDroleesdtF"] = roles
	local := addr('b', 0)
	localSC := make([]byte, 32) // a contract of this shard
	localSC[9], localSC[10], localSC[30] = 5, 's', 0x22
	fn := kind
	if i := strings.Index(kind, "/"); i >= 0 {
		fn = kind[:i]
	}
	ftok := "F"
	if tok != "S" {
		ftok = "G" // the fungible counterpart of the foreign token
	}
	var args [][]byte
	switch kind {
	case "ESDTNFTTransfer/same-shard":
		args = [][]byte{[]byte(tok), {1}, {1}, local}
	case "MultiESDTNFTTransfer/same-shard":
		args = [][]byte{local, {2}, []byte(tok), {1}, {1}, []byte("F"), {0}, {2}}
	case "ESDTTransfer":
		args = [][]byte{[]byte(ftok), {2}}
	case "ESDTTransfer/to-contract-with-call":
		args = [][]byte{[]byte(ftok), {2}, []byte("f"), []byte("x")}
	case "ESDTNFTTransfer/same-shard-contract-with-call":
		args = [][]byte{[]byte(tok), {1}, {1}, localSC, []byte("f"), []byte("x")}
	case "MultiESDTNFTTransfer/same-shard-contract-with-call":
		args = [][]byte{localSC, {2}, []byte(tok), {1}, {1}, []byte("F"), {0}, {2}, []byte("f"), []byte("x")}
	case "ESDTNFTTransfer/same-shard-contract-no-call":
		// no attached call: the payability of the contract is queried in the middle of the execution
		args = [][]byte{[]byte(tok), {1}, {1}, localSC}
	case "MultiESDTNFTTransfer/same-shard-contract-no-call":
		args = [][]byte{localSC, {2}, []byte(tok), {1}, {1}, []byte("F"), {0}, {2}}
	case "ESDTLocalBurn":
		args = [][]byte{[]byte(ftok), {2}}
	case "ESDTNFTAddQuantity":
		args = [][]byte{[]byte(tok), {1}, {2}}
	case "ESDTNFTBurn":
		args = [][]byte{[]byte(tok), {1}, {1}}
	case "ESDTLocalMint":
		args = [][]byte{[]byte(ftok), {2}}
	case "ESDTNFTUpdateAttributes":
		args = [][]byte{[]byte(tok), {1}, []byte("new-attributes")}
	case "ESDTNFTTransfer":
		args = [][]byte{[]byte(tok), {1}, {1}, dst}
	case "ESDTNFTCreate":
		args = [][]byte{[]byte(tok), {1}, []byte("name"), {100}, []byte("hash"), []byte("attributes"), []byte("uri-1"), []byte("uri-2")}
	case "SaveKeyValue":
		args = [][]byte{[]byte("k1"), []byte("vvvvvv"), []byte("k2"), []byte("value")}
	case "MultiESDTNFTTransfer":
		args = [][]byte{dst, {2}, []byte(tok), {1}, {1}, []byte("F"), {0}, {2}}
	case "ESDTNFTAddURI":
		args = [][]byte{[]byte(tok), {1}, []byte("another-uri")}
	}
	if big2 {
		long := []byte("a-much-longer-argument-than-the-usual-one-0123456789")
		switch fn {
		case "ESDTNFTUpdateAttributes":
			args[2] = long
		case "ESDTNFTAddURI":
			args = append(args, long)
		case "ESDTNFTCreate":
			args[5] = long
		case "SaveKeyValue":
			args[3] = long
		case "ESDTLocalBurn", "ESDTLocalMint", "ESDTTransfer":
			args[1] = []byte{3}
		case "ESDTNFTAddQuantity":
			args[2] = []byte{7}
		case "ESDTNFTBurn", "ESDTNFTTransfer":
			args[2] = []byte{2}
		case "MultiESDTNFTTransfer":
			args[4] = []byte{2}
			args[7] = []byte{3}
		}
	}
	f, err := l.Container.Get(fn)
	if err != nil {
		return ExecResult{Kind: kind, Err: err.Error()}
	}
	in := &vmcommon.ContractCallInput{VMInput: vmcommon.VMInput{CallerAddr: snd.addr, Arguments: args, CallValue: big.NewInt(0), GasProvided: gas}, RecipientAddr: snd.addr, Function: fn}
	var hd vmcommon.UserAccountHandler = snd
	if kind == "ESDTTransfer" {
		in.RecipientAddr = dst // user transaction to another shard: no destination account here
		hd = nil
	}
	if kind == "ESDTTransfer/to-contract-with-call" {
		in.RecipientAddr = localSC // a contract of this shard: the remaining gas is forwarded to its call
		hd = newLiteAccount(localSC)
	}
	out, err := f.ProcessBuiltinFunction(snd, hd, in)
	res := ExecResult{Kind: kind}
	for _, a := range args {
		res.ArgBytes += uint64(len(a))
	}
	if err != nil || out == nil {
		if err != nil {
			res.Err = err.Error()
		}
		return res
	}
	res.OK = true
	fwd := uint64(0)
	for _, oa := range out.OutputAccounts {
		for _, t := range oa.OutputTransfers {
			fwd += t.GasLimit
			parts := strings.Split(string(t.Data), "@")
			for _, p := range parts[1:] {
				if len(p) > 40 { // the hex of a marshalled NFT entry
					res.Payload += uint64(len(p) / 2)
				}
			}
		}
	}
	res.Consumed = gas - out.GasRemaining - fwd
	res.Remaining, res.Forwarded = out.GasRemaining, fwd
	var keys []string
	for k := range snd.storage {
		keys = append(keys, k)
	}
	sort.Strings(keys)
	var dg strings.Builder
	for _, k := range keys {
		fmt.Fprintf(&dg, "%x=%x;", k, snd.storage[k])
	}
	var outs []string
	for _, oa := range out.OutputAccounts {
		for _, t := range oa.OutputTransfers {
			outs = append(outs, fmt.Sprintf("%x>%s", oa.Address, t.Data))
		}
	}
	sort.Strings(outs)
	res.Digest = dg.String() + "|" + strings.Join(outs, ",") + "|" + fmt.Sprintf("%x", out.ReturnData)
	return res
}

// Charge is the closed-form charge of kind under Schedule(base) for the fixed inputs of Exec.
func Charge(kind string, base uint64, r ExecResult) uint64 {
	s := Schedule(base)
	bi, bo := s[vmcommon.BuiltInCostString], s[vmcommon.BaseOperationCostString]
	switch kind {
	case "ESDTNFTTransfer":
		return bi["ESDTNFTTransfer"] + bo["DataCopyPerByte"]*r.Payload
	case "ESDTNFTCreate":
		return bi["ESDTNFTCreate"] + bo["StorePerByte"]*r.ArgBytes
	case "SaveKeyValue":
		// k1: vv -> vvvvvv (grows by 4), k2: new 5-byte value
		return bi["SaveKeyValue"] + bo["PersistPerByte"]*(2+6+2+5) + bo["StorePerByte"]*(4+5)
	case "MultiESDTNFTTransfer":
		return 2*bi["ESDTNFTMultiTransfer"] + bo["DataCopyPerByte"]*r.Payload
	case "ESDTNFTAddURI":
		return bi["ESDTNFTAddURI"] + bo["StorePerByte"]*uint64(len("another-uri"))
	}
	return 0
}

// ToGasCost fills the library's gas-cost struct from a schedule (field names are the map keys).
func ToGasCost(s map[string]map[string]uint64) *vmcommon.GasCost {
	gc := &vmcommon.GasCost{}
	bi := reflect.ValueOf(&gc.BuiltInCost).Elem()
	for k, v := range s[vmcommon.BuiltInCostString] {
		if f := bi.FieldByName(k); f.IsValid() && f.CanSet() {
			f.SetUint(v)
		}
	}
	bo := reflect.ValueOf(&gc.BaseOperationCost).Elem()
	for k, v := range s[vmcommon.BaseOperationCostString] {
		if f := bo.FieldByName(k); f.IsValid() && f.CanSet() {
			f.SetUint(v)
		}
	}
	return gc
}

// DeliverDirectly hands the schedule to every function object of the container through
// SetNewGasConfig and then overwrites the struct it was delivered in (its owner reuses it).
func DeliverDirectly(l *Lite, base uint64) {
	gc := ToGasCost(Schedule(base))
	for _, name := range vsortedKeys(l.Container.Keys()) {
		if f, err := l.Container.Get(name); err == nil {
			f.SetNewGasConfig(gc)
		}
	}
	*gc = *ToGasCost(Schedule(900000))
}

func vsortedKeys(m map[string]struct{}) []string {
	out := make([]string, 0, len(m))
	for k := range m {
		out = append(out, k)
	}
	sort.Strings(out)
	return out
}
