#!/usr/bin/env python3
"""Generates .work/overlay.json: every non-test .go file of container/, atomic/, builtInFunctions/
of /repo's CURRENT working tree with its sync / sync/atomic imports rewritten to the cooperative
shims, plus the shim packages mapped as virtual directories of the elrond-vm-common module."""
import json, os, re, sys, glob
REPO=os.environ.get('VERIF_REPO') or '/repo'; VERIF=os.path.dirname(os.path.dirname(os.path.abspath(__file__))); TAG=(sys.argv[1] if len(sys.argv)>1 else ''); WORK=os.path.join(VERIF,'.work','ov'+TAG)
os.makedirs(WORK, exist_ok=True)
MOD='github.com/ElrondNetwork/elrond-vm-common'
rep={}
n=0
for d in ['container','atomic','builtInFunctions']:
    for f in sorted(glob.glob(os.path.join(REPO,d,'*.go'))):
        if f.endswith('_test.go'): continue
        s=open(f).read()
        s2=re.sub(r'(?m)^(\s*)(import\s+)?"sync"\s*$', lambda m: f'{m.group(1)}{m.group(2) or ""}sync "{MOD}/vsync"', s)
        s2=re.sub(r'(?m)^(\s*)(import\s+)?"sync/atomic"\s*$', lambda m: f'{m.group(1)}{m.group(2) or ""}atomic "{MOD}/vatomic"', s2)
        if d=='builtInFunctions' and os.path.basename(f)=='factory.go':
            pat='for key := range b.builtInFunctions.Keys() {'
            if pat in s2:
                s2=s2.replace(pat,'for _, key := range vsched.SortedKeys(b.builtInFunctions.Keys()) {')
                s2=re.sub(r'(?m)^import \($', 'import (\n\t"'+MOD+'/vsched"', s2, count=1)
        if re.search(r'"sync(/atomic)?"', s2):
            sys.exit(f'unrewritten sync import left in {f}')
        if s2!=s:
            out=os.path.join(WORK,d+'__'+os.path.basename(f))
            open(out,'w').write(s2); rep[f]=out; n+=1
for pkg in ['vsched','vsync','vatomic']:
    for f in glob.glob(os.path.join(VERIF,'engine','sched',pkg,'*.go')):
        rep[os.path.join(REPO,pkg,os.path.basename(f))]=f
json.dump({'Replace':rep}, open(os.path.join(VERIF,'.work','overlay'+TAG+'.json'),'w'), indent=1)
print(f'overlay: {n} library files rewritten')
