#!/bin/bash
# usage: ./run19.sh quick|thorough     (C19: engine E4 + the separate free-running race pass)
set -u
cd "$(dirname "$0")"
export GOFLAGS=-mod=mod GOPROXY=off GOSUMDB=off GOTOOLCHAIN=local
export GOCACHE="${GOCACHE:-$HOME/.cache/go-build}"
tier="${1:-${VERIF_TIER:-quick}}"
mkdir -p bin evidence replays .work
fail() { echo "SELF-CHECK property=C19 $1"; exit 2; }
MODFLAG=""
if [ -n "${VERIF_REPO:-}" ] && [ "$VERIF_REPO" != /repo ]; then
  sed "s|=> /repo\$|=> $VERIF_REPO|" go.mod > .work/alt.mod; cp go.sum .work/alt.sum 2>/dev/null || cp "$VERIF_REPO/go.sum" .work/alt.sum
  MODFLAG="-modfile=.work/alt.mod"
fi
python3 e4/gen_overlay.py > .work/overlay.log 2>&1 || { cat .work/overlay.log; fail "overlay generation failed"; }
CGO_ENABLED=0 go build $MODFLAG -overlay .work/overlay.json -tags e4 -o bin/vcheck19 ./cmd/vcheck19 2> .work/build19.log || { cat .work/build19.log; fail "E4 build (overlay) failed"; }
# race pass: same bodies, unmodified sync, -race, free-running, fixed iteration count
iters=2000; [ "$tier" = thorough ] && iters=20000
rm -f .work/race.json
if CGO_ENABLED=1 go build $MODFLAG -race -o bin/vrace19 ./cmd/vrace19 2> .work/buildrace.log; then
  # a deadlock introduced into the code under test would make the free-running pass hang for ever:
  # it normally needs well under a minute, so after 5 (thorough 25) minutes it is stopped and reported
  limit=300; [ "$tier" = thorough ] && limit=1500
  GORACE="halt_on_error=0" timeout -k 5 $limit ./bin/vrace19 $iters > .work/race.out 2> .work/race.log; racerc=$?
  [ $racerc = 124 ] || [ $racerc = 137 ] && echo "RACE-PASS-HUNG after ${limit}s" >> .work/race.log
  python3 - <<PY
import json,re
log=open('.work/race.log').read()
reports=log.count('WARNING: DATA RACE')
first=''; site=''
if reports:
    i=log.index('WARNING: DATA RACE'); first=log[i:i+1200]
    m=re.search(r'/repo/([A-Za-z]+/[A-Za-z_0-9]+\.go)', first); site=m.group(1) if m else 'unknown'
try: summary=json.loads(open('.work/race.out').read().strip().splitlines()[-1])
except Exception as e: summary={'error':'race pass produced no summary','stderr':log[:500]}
summary.update({'reports':reports,'first_site':site,'first_report':first,'iterations_per_harness':$iters,'hung':'RACE-PASS-HUNG' in log})
json.dump(summary,open('.work/race.json','w'))
PY
else
  cat .work/buildrace.log; fail "race-pass build failed"
fi
exec ./bin/vcheck19 "$tier"
