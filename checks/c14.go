package checks

import (
	"bytes"
	"fmt"
	"math/big"
	"time"

	"github.com/ElrondNetwork/elrond-vm-common/data"
	"github.com/ElrondNetwork/elrond-vm-common/data/esdt"
)

// ---------------------------------------------------------------------------------------------
// reference protobuf encoder, written from data/esdt/proto/esdt.proto (trusted)

func refVarint(b []byte, v uint64) []byte {
	for v >= 0x80 {
		b = append(b, byte(v)|0x80)
		v >>= 7
	}
	return append(b, byte(v))
}

func refBytesField(b []byte, tag byte, x []byte) []byte {
	b = append(b, tag)
	b = refVarint(b, uint64(len(x)))
	return append(b, x...)
}

// refAmount: nil = 00; zero = 00 00; otherwise one sign byte (00 / 01) + big-endian magnitude.
func refAmount(v *big.Int) []byte {
	if v == nil {
		return []byte{0}
	}
	if v.Sign() == 0 {
		return []byte{0, 0}
	}
	sign := byte(0)
	if v.Sign() < 0 {
		sign = 1
	}
	return append([]byte{sign}, new(big.Int).Abs(v).Bytes()...)
}

func refMeta(m *esdt.MetaData) []byte {
	var b []byte
	if m.Nonce != 0 {
		b = append(b, 0x08)
		b = refVarint(b, m.Nonce)
	}
	if len(m.Name) > 0 {
		b = refBytesField(b, 0x12, m.Name)
	}
	if len(m.Creator) > 0 {
		b = refBytesField(b, 0x1a, m.Creator)
	}
	if m.Royalties != 0 {
		b = append(b, 0x20)
		b = refVarint(b, uint64(m.Royalties))
	}
	if len(m.Hash) > 0 {
		b = refBytesField(b, 0x2a, m.Hash)
	}
	for _, u := range m.URIs {
		b = refBytesField(b, 0x32, u)
	}
	if len(m.Attributes) > 0 {
		b = refBytesField(b, 0x3a, m.Attributes)
	}
	return b
}

func refToken(t *esdt.ESDigitalToken) []byte {
	var b []byte
	if t.Type != 0 {
		b = append(b, 0x08)
		b = refVarint(b, uint64(t.Type))
	}
	b = refBytesField(b, 0x12, refAmount(t.Value))
	if len(t.Properties) > 0 {
		b = refBytesField(b, 0x1a, t.Properties)
	}
	if t.TokenMetaData != nil {
		b = refBytesField(b, 0x22, refMeta(t.TokenMetaData))
	}
	if len(t.Reserved) > 0 {
		b = refBytesField(b, 0x2a, t.Reserved)
	}
	return b
}

func refRoles(r *esdt.ESDTRoles) []byte {
	var b []byte
	for _, x := range r.Roles {
		b = refBytesField(b, 0x0a, x)
	}
	return b
}

func listEq(a, b [][]byte) bool {
	if len(a) != len(b) {
		return false
	}
	for i := range a {
		if !beq(a[i], b[i]) {
			return false
		}
	}
	return true
}

func tokenEq(a, b *esdt.ESDigitalToken) string {
	switch {
	case a.Type != b.Type:
		return "Type"
	case !bigEq(a.Value, b.Value):
		return "Value"
	case !beq(a.Properties, b.Properties):
		return "Properties"
	case !beq(a.Reserved, b.Reserved):
		return "Reserved"
	case (a.TokenMetaData == nil) != (b.TokenMetaData == nil):
		return "TokenMetaData presence"
	}
	if a.TokenMetaData != nil {
		if f := metaEq(a.TokenMetaData, b.TokenMetaData); f != "" {
			return "TokenMetaData." + f
		}
	}
	return ""
}

// ---------------------------------------------------------------------------------------------

func c14Values() (toks []*esdt.ESDigitalToken, metas []*esdt.MetaData, roles []*esdt.ESDTRoles) {
	two64 := new(big.Int).Lsh(big.NewInt(1), 64)
	huge := new(big.Int).SetBytes(bytes.Repeat([]byte{0xff}, 100))
	two63 := new(big.Int).Lsh(big.NewInt(1), 63)
	values := []*big.Int{nil, big.NewInt(0), big.NewInt(1), big.NewInt(-1), big.NewInt(255), big.NewInt(256), big.NewInt(-65535), two64, new(big.Int).Neg(two64), huge, new(big.Int).Neg(huge),
		two63, new(big.Int).Neg(two63), new(big.Int).Sub(two63, big.NewInt(1)), new(big.Int).Sub(two64, big.NewInt(1)), new(big.Int).Mul(big.NewInt(10), new(big.Int).Exp(big.NewInt(10), big.NewInt(18), nil))}
	bytesDom := [][]byte{nil, {}, []byte("x")}
	uriDom := [][][]byte{nil, {}, {{}}, {[]byte("u"), []byte("v")}, {nil, []byte("w")}}
	for _, nonce := range []uint64{0, 1, 127, 128, 1 << 63, 1<<64 - 1} {
		for _, name := range bytesDom {
			for _, creator := range bytesDom {
				for _, roy := range []uint32{0, 10000, 1<<32 - 1} {
					for _, hash := range bytesDom {
						for _, uris := range uriDom {
							for _, attr := range bytesDom {
								metas = append(metas, &esdt.MetaData{Nonce: nonce, Name: name, Creator: creator, Royalties: roy, Hash: hash, URIs: uris, Attributes: attr})
							}
						}
					}
				}
			}
		}
	}
	// varint boundaries of lengths and numbers: 127/128/129 and 16383/16384
	for _, n := range []int{127, 128, 129, 16383, 16384} {
		metas = append(metas, &esdt.MetaData{Nonce: uint64(n), Name: make([]byte, n), Royalties: uint32(n), URIs: [][]byte{make([]byte, n), {}}, Attributes: bytes.Repeat([]byte{1}, n)})
		toks = append(toks, &esdt.ESDigitalToken{Type: uint32(n), Value: new(big.Int).SetBytes(bytes.Repeat([]byte{0xff}, n%300)), Properties: make([]byte, n), TokenMetaData: &esdt.MetaData{Nonce: uint64(n), Hash: make([]byte, n)}, Reserved: make([]byte, n)})
		rl := &esdt.ESDTRoles{}
		for i := 0; i < 3; i++ {
			rl.Roles = append(rl.Roles, make([]byte, n))
		}
		roles = append(roles, rl)
	}
	metaShapes := []*esdt.MetaData{nil, {}, {Nonce: 1}, {Nonce: 300, Name: []byte("n"), Creator: bytes.Repeat([]byte{7}, 32), Royalties: 10000, Hash: []byte("h"), URIs: [][]byte{[]byte("u"), {}}, Attributes: []byte("a")},
		{URIs: [][]byte{{}}}, {Attributes: make([]byte, 200)}, {Royalties: 1<<32 - 1}, {Nonce: 1<<64 - 1, Hash: []byte{0}}}
	for _, typ := range []uint32{0, 1, 300, 1<<32 - 1} {
		for _, v := range values {
			for _, props := range [][]byte{nil, {}, {0, 0}, {1, 0}} {
				for _, md := range metaShapes {
					for _, res := range [][]byte{nil, {}, {1}} {
						toks = append(toks, &esdt.ESDigitalToken{Type: typ, Value: v, Properties: props, TokenMetaData: md, Reserved: res})
					}
				}
			}
		}
	}
	for _, r := range [][][]byte{nil, {}, {{}}, {[]byte("r")}, {[]byte("r"), []byte("r")}, {[]byte("ESDTRoleNFTCreate"), {}, []byte("x")}} {
		roles = append(roles, &esdt.ESDTRoles{Roles: r})
	}
	return
}

var wireBytes = []byte{0x00, 0x01, 0x08, 0x0a, 0x12, 0x1a, 0x22, 0x2a, 0x32, 0x3a, 0x7f, 0x80, 0xff}

// decodeAll feeds buf to the three decoders; a successful decode must re-encode and re-decode to
// an equal value (stability), nothing may panic.
func decodeAll(e *Enum, buf []byte) {
	const P = "C14"
	for which := 0; which < 3; which++ {
		var cls string
		if p := guard(func() {
			switch which {
			case 0:
				t := &esdt.ESDigitalToken{}
				if err := t.Unmarshal(buf); err != nil {
					cls = "token:err"
					return
				}
				cls = "token:ok"
				out, err := t.Marshal()
				if err != nil {
					e.Fail(P, "decode", "decoded-value-not-encodable", fmt.Sprintf("ESDigitalToken decoded from %x cannot be encoded: %v", buf, err), "case", fmt.Sprintf("%x", buf))
					return
				}
				t2 := &esdt.ESDigitalToken{}
				if err := t2.Unmarshal(out); err != nil || tokenEq(t, t2) != "" {
					e.Fail(P, "decode", "decode-not-stable", fmt.Sprintf("ESDigitalToken decoded from %x re-encodes to %x which decodes differently (%v)", buf, out, err), "case", fmt.Sprintf("%x", buf))
				}
			case 1:
				m := &esdt.MetaData{}
				if err := m.Unmarshal(buf); err != nil {
					cls = "meta:err"
					return
				}
				cls = "meta:ok"
				out, _ := m.Marshal()
				m2 := &esdt.MetaData{}
				if err := m2.Unmarshal(out); err != nil || metaEq(m, m2) != "" {
					e.Fail(P, "decode", "decode-not-stable", fmt.Sprintf("MetaData decoded from %x re-encodes to %x which decodes differently", buf, out), "case", fmt.Sprintf("%x", buf))
				}
			case 2:
				r := &esdt.ESDTRoles{}
				if err := r.Unmarshal(buf); err != nil {
					cls = "roles:err"
					return
				}
				cls = "roles:ok"
				out, _ := r.Marshal()
				r2 := &esdt.ESDTRoles{}
				if err := r2.Unmarshal(out); err != nil || !listEq(r.Roles, r2.Roles) {
					e.Fail(P, "decode", "decode-not-stable", fmt.Sprintf("ESDTRoles decoded from %x re-encodes to %x which decodes differently", buf, out), "case", fmt.Sprintf("%x", buf))
				}
			}
		}); p != nil {
			e.Fail(P, "decode", "decoder-panic", fmt.Sprintf("decoder %d panicked on %x: %v", which, buf, p), "case", fmt.Sprintf("%x", buf))
			cls = "panic"
		}
		e.Case(fmt.Sprintf("%s:len%d", cls, len(buf)))
	}
}

// C14 decides "token-data serialisation is lossless, canonical and format-stable".
func C14(tier Tier) int {
	start := time.Now()
	const P = "C14"
	ws := make([]*Enum, NumWorkers())
	for i := range ws {
		ws[i] = NewEnum()
	}
	caster := &data.BigIntCaster{}
	// 1. amount codec: all buffers of length 0..3 (0..2 in the quick tier plus every 5th of length 3)
	amount := func(e *Enum, buf []byte) {
		var v *big.Int
		var err error
		if p := guard(func() { v, err = caster.Unmarshal(buf) }); p != nil {
			e.Fail(P, "amount", "unmarshal-panic", fmt.Sprintf("BigIntCaster.Unmarshal(%x) panicked: %v", buf, p), "case", fmt.Sprintf("%x", buf))
			return
		}
		canonical := len(buf) >= 2 && buf[0] <= 1 && (buf[1] != 0 || (len(buf) == 2 && buf[0] == 0))
		switch {
		case err != nil:
			if canonical || len(buf) == 1 {
				e.Fail(P, "amount", "canonical-encoding-rejected", fmt.Sprintf("BigIntCaster.Unmarshal(%x) = error %v", buf, err), "case", fmt.Sprintf("%x", buf))
			}
			e.Case(fmt.Sprintf("amount:err:len%d", len(buf)))
		case v == nil:
			if len(buf) != 1 {
				e.Fail(P, "amount", "nil-from-long-buffer", fmt.Sprintf("BigIntCaster.Unmarshal(%x) = nil", buf), "case", fmt.Sprintf("%x", buf))
			}
			e.Case("amount:nil")
		default:
			if canonical {
				want := new(big.Int).SetBytes(buf[1:])
				if buf[0] == 1 {
					want.Neg(want)
				}
				if v.Cmp(want) != 0 {
					e.Fail(P, "amount", "wrong-value", fmt.Sprintf("BigIntCaster.Unmarshal(%x) = %s, the wire format says %s", buf, v, want), "case", fmt.Sprintf("%x", buf))
				}
				// canonical bytes must re-encode to themselves
				out := make([]byte, caster.Size(v))
				n, merr := caster.MarshalTo(v, out)
				if merr != nil || !bytes.Equal(out[:n], buf) {
					e.Fail(P, "amount", "not-canonical", fmt.Sprintf("canonical bytes %x decode to %s which re-encodes to %x (%v)", buf, v, out[:n], merr), "case", fmt.Sprintf("%x", buf))
				}
			}
			e.Case(fmt.Sprintf("amount:value:sign%d:len%d:canon%v", v.Sign(), len(buf), canonical))
		}
	}
	amount(ws[0], []byte{})
	amount(ws[0], nil)
	Parallel(256, func(wk, b0 int) {
		e := ws[wk]
		amount(e, []byte{byte(b0)})
		for b1 := 0; b1 < 256; b1++ {
			amount(e, []byte{byte(b0), byte(b1)})
			for b2 := 0; b2 < 256; b2++ {
				if !tier.Thorough() && b2%5 != 0 && b2 != 255 && b2 != 1 {
					continue
				}
				amount(e, []byte{byte(b0), byte(b1), byte(b2)})
			}
		}
	})
	// amounts through Size / MarshalTo / Unmarshal, including every magnitude of up to 2 bytes
	var amounts []*big.Int
	amounts = append(amounts, nil)
	for m := int64(0); m < 65536; m++ {
		amounts = append(amounts, big.NewInt(m))
		if m > 0 {
			amounts = append(amounts, big.NewInt(-m))
		}
	}
	two64 := new(big.Int).Lsh(big.NewInt(1), 64)
	huge := new(big.Int).SetBytes(bytes.Repeat([]byte{0xff}, 100))
	amounts = append(amounts, two64, new(big.Int).Neg(two64), huge, new(big.Int).Neg(huge))
	// word boundaries: 2^k - 1, 2^k, 2^k + 1 for every k up to 130, both signs
	for k := uint(16); k <= 130; k++ {
		p2 := new(big.Int).Lsh(big.NewInt(1), k)
		for _, d := range []int64{-1, 0, 1} {
			v := new(big.Int).Add(p2, big.NewInt(d))
			amounts = append(amounts, v, new(big.Int).Neg(v))
		}
	}
	Parallel(len(amounts), func(wk, i int) {
		e := ws[wk]
		v := amounts[i]
		want := refAmount(v)
		size := caster.Size(v)
		for _, extra := range []int{0, 1} {
			buf := make([]byte, size+extra)
			for j := range buf {
				buf[j] = 0xAA
			}
			var n int
			var err error
			if p := guard(func() { n, err = caster.MarshalTo(v, buf) }); p != nil {
				e.Fail(P, "amount", "marshal-panic", fmt.Sprintf("BigIntCaster.MarshalTo(%v) into %d bytes panicked: %v", v, len(buf), p), "case", fmt.Sprintf("%v", v))
				continue
			}
			if err != nil || n != size || !bytes.Equal(buf[:n], want) {
				e.Fail(P, "amount", "encoding-differs-from-format", fmt.Sprintf("amount %v: Size=%d MarshalTo wrote %d bytes %x (err %v); the wire format is %x", v, size, n, buf[:n], err, want), "case", fmt.Sprintf("%v", v))
			}
		}
		back, err := caster.Unmarshal(want)
		if err != nil || !bigEq(back, v) {
			e.Fail(P, "amount", "roundtrip", fmt.Sprintf("amount %v encodes to %x which decodes to %v (%v)", v, want, back, err), "case", fmt.Sprintf("%v", v))
		}
		if i%4096 == 0 {
			e.Case(fmt.Sprintf("amount-roundtrip:sign%d", func() int {
				if v == nil {
					return 9
				}
				return v.Sign()
			}()))
		} else {
			e.Evals++
		}
	})
	// 2. messages: full product of per-field domains against the reference encoder
	toks, metas, roles := c14Values()
	var valid [][]byte
	encode := func(e *Enum, kind string, marshal func() ([]byte, error), size func() int, ref []byte, rt func(out []byte) string) []byte {
		var out, out2 []byte
		var err error
		if p := guard(func() { out, err = marshal(); out2, _ = marshal() }); p != nil {
			e.Fail(P, "encode", kind+":marshal-panic", fmt.Sprintf("%s Marshal panicked: %v", kind, p), "case", fmt.Sprintf("%x", ref))
			return nil
		}
		if err != nil {
			e.Fail(P, "encode", kind+":marshal-error", fmt.Sprintf("%s Marshal failed: %v", kind, err), "case", fmt.Sprintf("%x", ref))
			return nil
		}
		if !bytes.Equal(out, ref) {
			e.Fail(P, "encode", kind+":differs-from-wire-format", fmt.Sprintf("%s Marshal = %x, the documented wire format gives %x", kind, out, ref), "case", fmt.Sprintf("%x", ref))
		}
		if !bytes.Equal(out, out2) {
			e.Fail(P, "encode", kind+":not-deterministic", "two consecutive Marshal calls differ", "case", fmt.Sprintf("%x", ref))
		}
		if s := size(); s != len(out) {
			e.Fail(P, "encode", kind+":size", fmt.Sprintf("%s Size()=%d but Marshal produced %d bytes", kind, s, len(out)), "case", fmt.Sprintf("%x", ref))
		}
		if f := rt(out); f != "" {
			e.Fail(P, "encode", kind+":roundtrip:"+f, fmt.Sprintf("%s: decoding its own encoding %x differs in %s", kind, out, f), "case", fmt.Sprintf("%x", ref))
		}
		return out
	}
	validPer := make([][][]byte, NumWorkers())
	Parallel(len(toks), func(wk, i int) {
		t := toks[i]
		out := encode(ws[wk], "ESDigitalToken", t.Marshal, t.Size, refToken(t), func(out []byte) string {
			b := &esdt.ESDigitalToken{}
			if err := b.Unmarshal(out); err != nil {
				return "error " + err.Error()
			}
			return tokenEq(t, b)
		})
		// the same bytes must come out when encoding into a caller-provided, non-zeroed buffer
		dirty := bytes.Repeat([]byte{0xAA}, t.Size())
		if p := guard(func() {
			n, err := t.MarshalTo(dirty)
			if err != nil || !bytes.Equal(dirty[:n], refToken(t)) {
				ws[wk].Fail(P, "encode", "ESDigitalToken:marshal-to-dirty-buffer", fmt.Sprintf("MarshalTo into a non-zeroed buffer gives %x (err %v), the wire format is %x", dirty[:n], err, refToken(t)), "case", fmt.Sprintf("%x", refToken(t)))
			}
		}); p != nil {
			ws[wk].Fail(P, "encode", "ESDigitalToken:marshal-to-panic", fmt.Sprintf("MarshalTo panicked: %v", p), "case", fmt.Sprintf("%x", refToken(t)))
		}
		// ... and into a buffer that is longer than needed (a pooled / frame buffer): the encoding
		// occupies the first n bytes
		roomy := bytes.Repeat([]byte{0xAA}, t.Size()+7)
		if p := guard(func() {
			n, err := t.MarshalTo(roomy)
			if err != nil || n != t.Size() || !bytes.Equal(roomy[:n], refToken(t)) {
				ws[wk].Fail(P, "encode", "ESDigitalToken:marshal-to-longer-buffer", fmt.Sprintf("MarshalTo into a buffer 7 bytes longer than Size() reports %d bytes %x (err %v), the wire format is %x", n, roomy[:n], err, refToken(t)), "case", fmt.Sprintf("%x", refToken(t)))
			}
		}); p != nil {
			ws[wk].Fail(P, "encode", "ESDigitalToken:marshal-to-panic", fmt.Sprintf("MarshalTo (longer buffer) panicked: %v", p), "case", fmt.Sprintf("%x", refToken(t)))
		}
		ws[wk].Case(fmt.Sprintf("token:type%v:valueSign%v:md%v", t.Type != 0, func() interface{} {
			if t.Value == nil {
				return "nil"
			}
			return t.Value.Sign()
		}(), t.TokenMetaData != nil))
		if out != nil && i%3 == 0 {
			validPer[wk] = append(validPer[wk], out)
		}
	})
	Parallel(len(metas), func(wk, i int) {
		m := metas[i]
		out := encode(ws[wk], "MetaData", m.Marshal, m.Size, refMeta(m), func(out []byte) string {
			b := &esdt.MetaData{}
			if err := b.Unmarshal(out); err != nil {
				return "error " + err.Error()
			}
			return metaEq(m, b)
		})
		roomy := bytes.Repeat([]byte{0xAA}, m.Size()+7)
		if p := guard(func() {
			n, err := m.MarshalTo(roomy)
			if err != nil || n != m.Size() || !bytes.Equal(roomy[:n], refMeta(m)) {
				ws[wk].Fail(P, "encode", "MetaData:marshal-to-longer-buffer", fmt.Sprintf("MarshalTo into a longer buffer reports %d bytes %x (err %v), the wire format is %x", n, roomy[:n], err, refMeta(m)), "case", fmt.Sprintf("%x", refMeta(m)))
			}
		}); p != nil {
			ws[wk].Fail(P, "encode", "MetaData:marshal-to-panic", fmt.Sprintf("MarshalTo (longer buffer) panicked: %v", p), "case", fmt.Sprintf("%x", refMeta(m)))
		}
		ws[wk].Case(fmt.Sprintf("meta:nonce%v:uris%d", m.Nonce != 0, len(m.URIs)))
		if out != nil && i%11 == 0 {
			validPer[wk] = append(validPer[wk], out)
		}
	})
	for _, r := range roles {
		r := r
		out := encode(ws[0], "ESDTRoles", r.Marshal, r.Size, refRoles(r), func(out []byte) string {
			b := &esdt.ESDTRoles{}
			if err := b.Unmarshal(out); err != nil {
				return "error " + err.Error()
			}
			if !listEq(r.Roles, b.Roles) {
				return "Roles"
			}
			return ""
		})
		ws[0].Case(fmt.Sprintf("roles:%d", len(r.Roles)))
		if out != nil {
			valid = append(valid, out)
		}
	}
	for _, v := range validPer {
		valid = append(valid, v...)
	}
	// 3. decoding arbitrary bytes: all strings of length <= 3 over all 256 values (<= 2 quick) and
	// of length <= 6 (<= 5 quick) over the 13 wire-significant bytes
	decodeAll(ws[0], []byte{})
	maxFull, maxWire := 2, 5
	if tier.Thorough() {
		maxFull, maxWire = 3, 6
	}
	Parallel(256, func(wk, b0 int) {
		e := ws[wk]
		decodeAll(e, []byte{byte(b0)})
		for b1 := 0; b1 < 256; b1++ {
			decodeAll(e, []byte{byte(b0), byte(b1)})
			if maxFull >= 3 {
				for b2 := 0; b2 < 256; b2++ {
					decodeAll(e, []byte{byte(b0), byte(b1), byte(b2)})
				}
			}
		}
	})
	var wireStrings func(e *Enum, prefix []byte, depth int)
	wireStrings = func(e *Enum, prefix []byte, depth int) {
		if len(prefix) >= 3 {
			decodeAll(e, prefix)
		}
		if depth == 0 {
			return
		}
		for _, b := range wireBytes {
			wireStrings(e, append(append([]byte{}, prefix...), b), depth-1)
		}
	}
	Parallel(len(wireBytes)*len(wireBytes), func(wk, i int) {
		wireStrings(ws[wk], []byte{wireBytes[i/len(wireBytes)], wireBytes[i%len(wireBytes)]}, maxWire-2)
	})
	// deterministic mutations of valid encodings: every truncation, every single-byte substitution
	step := 1
	if !tier.Thorough() {
		step = 6
	}
	Parallel(len(valid), func(wk, i int) {
		if i%step != 0 {
			return
		}
		e := ws[wk]
		v := valid[i]
		if len(v) > 120 {
			v = v[:120]
		}
		for cut := 0; cut < len(v); cut++ {
			decodeAll(e, v[:cut])
		}
		for pos := 0; pos < len(v); pos++ {
			for _, b := range wireBytes {
				if v[pos] == b {
					continue
				}
				x := append([]byte{}, v...)
				x[pos] = b
				decodeAll(e, x)
			}
		}
	})
	// long fields: every bytes field of the three messages at the lengths where a length prefix or a
	// size assumption changes (127/128, 255/256, 16383/16384, 65535/65536, 100000, 2^21)
	{
		for _, n := range []int{127, 128, 255, 256, 16383, 16384, 65535, 65536, 100000, 1 << 21} {
			blob := bytes.Repeat([]byte{0xa5}, n)
			metasL := []*esdt.MetaData{{Nonce: 1, Name: blob}, {Nonce: 1, Creator: blob}, {Nonce: 1, Hash: blob}, {Nonce: 1, Attributes: blob}, {Nonce: 1, URIs: [][]byte{[]byte("u"), blob}}}
			for fi, m := range metasL {
				for _, wrap := range []bool{false, true} {
					var enc []byte
					var err error
					var back *esdt.MetaData
					if wrap {
						t := &esdt.ESDigitalToken{Type: 1, Value: big.NewInt(1), TokenMetaData: m}
						enc, err = t.Marshal()
						t2 := &esdt.ESDigitalToken{}
						if err == nil {
							err = t2.Unmarshal(enc)
						}
						back = t2.TokenMetaData
					} else {
						enc, err = m.Marshal()
						back = &esdt.MetaData{}
						if err == nil {
							err = back.Unmarshal(enc)
						}
					}
					if err != nil || back == nil || metaEq(m, back) != "" {
						ws[0].Fail(P, "roundtrip", fmt.Sprintf("long-field:meta-field-%d", fi), fmt.Sprintf("metadata with a %d-byte field (#%d, wrapped in a token: %v) does not survive the round trip: %v", n, fi, wrap, err), "case", fmt.Sprintf("long:%d:%d:%v", n, fi, wrap))
					}
					ws[0].Case(fmt.Sprintf("long-field:%d", n))
				}
			}
			tk := &esdt.ESDigitalToken{Value: big.NewInt(1), Properties: blob, Reserved: blob}
			if enc, err := tk.Marshal(); err != nil {
				ws[0].Fail(P, "roundtrip", "long-field:token", fmt.Sprintf("token with %d-byte properties cannot be encoded: %v", n, err), "case", fmt.Sprintf("longtok:%d", n))
			} else {
				t2 := &esdt.ESDigitalToken{}
				if err := t2.Unmarshal(enc); err != nil || tokenEq(tk, t2) != "" {
					ws[0].Fail(P, "roundtrip", "long-field:token", fmt.Sprintf("token with %d-byte properties / reserved does not survive the round trip: %v", n, err), "case", fmt.Sprintf("longtok:%d", n))
				}
			}
			rl := &esdt.ESDTRoles{Roles: [][]byte{[]byte("r"), blob}}
			if enc, err := rl.Marshal(); err == nil {
				r2 := &esdt.ESDTRoles{}
				if err := r2.Unmarshal(enc); err != nil || !listEq(rl.Roles, r2.Roles) {
					ws[0].Fail(P, "roundtrip", "long-field:roles", fmt.Sprintf("role list with a %d-byte entry does not survive the round trip: %v", n, err), "case", fmt.Sprintf("longroles:%d", n))
				}
			}
			amt := new(big.Int).SetBytes(blob)
			wire := refAmount(amt)
			if backAmt, err := (&data.BigIntCaster{}).Unmarshal(wire); err != nil || backAmt == nil || backAmt.Cmp(amt) != 0 {
				ws[0].Fail(P, "roundtrip", "long-field:amount", fmt.Sprintf("an amount of %d bytes does not survive the round trip: %v", n, err), "case", fmt.Sprintf("longamt:%d", n))
			}
		}
	}
	// one holder decoded into repeatedly, the way the node's marshaller does it (Reset, then
	// Unmarshal): what the holder decoded before must not show in what it decodes next - every
	// ordered pair of a spread of values of each message type
	{
		pick := func(n, want int) []int {
			var idx []int
			step := n / want
			if step < 1 {
				step = 1
			}
			for i := 0; i < n; i += step {
				idx = append(idx, i)
			}
			return append(idx, n-1)
		}
		want := 60
		if tier.Thorough() {
			want = 160
		}
		ti := pick(len(toks), want)
		for _, i := range ti {
			for _, j := range ti {
				first, _ := toks[i].Marshal()
				second, _ := toks[j].Marshal()
				h := &esdt.ESDigitalToken{}
				h.Reset()
				if h.Unmarshal(first) != nil {
					continue
				}
				h.Reset()
				err := h.Unmarshal(second)
				again, _ := h.Marshal()
				if err != nil || tokenEq(toks[j], h) != "" || !bytes.Equal(again, second) {
					ws[0].Fail(P, "roundtrip", "reused-holder:ESDigitalToken", fmt.Sprintf("a holder that decoded %x and then (after Reset) %x holds a value that differs from a fresh decode in %q and re-encodes to %x (%v)", first, second, tokenEq(toks[j], h), again, err), "case", fmt.Sprintf("reuse-tok:%d:%d", i, j))
				}
				ws[0].Case("reused-holder:token")
			}
		}
		mi := pick(len(metas), want)
		for _, i := range mi {
			for _, j := range mi {
				first, _ := metas[i].Marshal()
				second, _ := metas[j].Marshal()
				h := &esdt.MetaData{}
				if h.Unmarshal(first) != nil {
					continue
				}
				h.Reset()
				err := h.Unmarshal(second)
				again, _ := h.Marshal()
				if err != nil || metaEq(metas[j], h) != "" || !bytes.Equal(again, second) {
					ws[0].Fail(P, "roundtrip", "reused-holder:MetaData", fmt.Sprintf("a holder that decoded %x and then (after Reset) %x differs from a fresh decode in %q (%v)", first, second, metaEq(metas[j], h), err), "case", fmt.Sprintf("reuse-meta:%d:%d", i, j))
				}
				ws[0].Case("reused-holder:metadata")
			}
		}
		for i := range roles {
			for j := range roles {
				first, _ := roles[i].Marshal()
				second, _ := roles[j].Marshal()
				h := &esdt.ESDTRoles{}
				if h.Unmarshal(first) != nil {
					continue
				}
				h.Reset()
				err := h.Unmarshal(second)
				again, _ := h.Marshal()
				if err != nil || !listEq(roles[j].Roles, h.Roles) || !bytes.Equal(again, second) {
					ws[0].Fail(P, "roundtrip", "reused-holder:ESDTRoles", fmt.Sprintf("a holder that decoded %x and then (after Reset) %x holds %q (%v)", first, second, h.Roles, err), "case", fmt.Sprintf("reuse-roles:%d:%d", i, j))
				}
				ws[0].Case("reused-holder:roles")
			}
		}
	}
	// decoded values do not share memory with the buffer they were decoded from: after decoding,
	// the buffer is overwritten (a reused read buffer) and the decoded value must be unchanged;
	// appending to a decoded field must not write into the buffer either
	{
		stepA := 1
		if !tier.Thorough() {
			stepA = 3
		}
		for i := 0; i < len(valid); i += stepA {
			orig := valid[i]
			for which := 0; which < 3; which++ {
				buf := append(make([]byte, 0, len(orig)+16), orig...)
				var before, after []byte
				var grow func()
				switch which {
				case 0:
					t := &esdt.ESDigitalToken{}
					if t.Unmarshal(buf) != nil {
						continue
					}
					before, _ = t.Marshal()
					grow = func() {
						t.Properties = append(t.Properties, 0x77, 0x77)
						t.Reserved = append(t.Reserved, 0x77)
						if t.TokenMetaData != nil {
							for k := range t.TokenMetaData.URIs {
								t.TokenMetaData.URIs[k] = append(t.TokenMetaData.URIs[k], 0x77, 0x77)
							}
							t.TokenMetaData.Name = append(t.TokenMetaData.Name, 0x77)
							t.TokenMetaData.Attributes = append(t.TokenMetaData.Attributes, 0x77)
						}
					}
					snapshot := append([]byte{}, buf...)
					grow()
					if !bytes.Equal(buf, snapshot) {
						ws[0].Fail(P, "decode", "decoded-value-shares-buffer", fmt.Sprintf("appending to the fields of a token decoded from %x wrote into the buffer it was decoded from", orig), "case", fmt.Sprintf("alias-buf:%x", orig))
					}
					t2 := &esdt.ESDigitalToken{}
					_ = t2.Unmarshal(orig)
					for k := range buf {
						buf[k] = 0xee
					}
					_ = grow
					t3 := &esdt.ESDigitalToken{}
					_ = t3.Unmarshal(append([]byte{}, orig...))
					after, _ = t3.Marshal()
					// the value decoded before the buffer was overwritten, minus what grow appended
					tchk := &esdt.ESDigitalToken{}
					if tchk.Unmarshal(append([]byte{}, orig...)) == nil {
						tb := &esdt.ESDigitalToken{}
						bb := append(make([]byte, 0, len(orig)+16), orig...)
						if tb.Unmarshal(bb) == nil {
							for k := range bb {
								bb[k] = 0xee
							}
							now, _ := tb.Marshal()
							if !bytes.Equal(now, before) {
								ws[0].Fail(P, "decode", "decoded-value-shares-buffer", fmt.Sprintf("a token decoded from %x changed when the buffer was overwritten afterwards (it re-encodes to %x instead of %x)", orig, now, before), "case", fmt.Sprintf("alias-buf:%x", orig))
							}
						}
					}
					_ = after
				case 1:
					m := &esdt.MetaData{}
					bb := append(make([]byte, 0, len(orig)+16), orig...)
					if m.Unmarshal(bb) != nil {
						continue
					}
					before, _ = m.Marshal()
					for k := range bb {
						bb[k] = 0xee
					}
					now, _ := m.Marshal()
					if !bytes.Equal(now, before) {
						ws[0].Fail(P, "decode", "decoded-value-shares-buffer", fmt.Sprintf("metadata decoded from %x changed when the buffer was overwritten afterwards", orig), "case", fmt.Sprintf("alias-buf-meta:%x", orig))
					}
				case 2:
					r := &esdt.ESDTRoles{}
					bb := append(make([]byte, 0, len(orig)+16), orig...)
					if r.Unmarshal(bb) != nil {
						continue
					}
					before, _ = r.Marshal()
					for k := range bb {
						bb[k] = 0xee
					}
					now, _ := r.Marshal()
					if !bytes.Equal(now, before) {
						ws[0].Fail(P, "decode", "decoded-value-shares-buffer", fmt.Sprintf("a role list decoded from %x changed when the buffer was overwritten afterwards", orig), "case", fmt.Sprintf("alias-buf-roles:%x", orig))
					}
				}
			}
		}
		ws[0].Case("decode-owns-its-memory")
	}
	// hostile varints: every tag (field 1..9 x wire type 0..5) followed by every extreme varint
	// (as a value or as a length), bare, followed by a few bytes, and nested inside the token's
	// metadata field
	{
		var extremes [][]byte
		for _, v := range []uint64{0, 1, 127, 128, 1<<31 - 1, 1 << 31, 1<<32 - 1, 1 << 32, 1<<62 - 1, 1 << 62, 1<<63 - 1, 1 << 63, 1<<64 - 1} {
			extremes = append(extremes, refVarint(nil, v))
		}
		// over-long and unterminated varints
		extremes = append(extremes, bytes.Repeat([]byte{0xff}, 9), append(bytes.Repeat([]byte{0xff}, 9), 0x01), append(bytes.Repeat([]byte{0xff}, 9), 0x7f),
			append(bytes.Repeat([]byte{0xff}, 10), 0x01), append(bytes.Repeat([]byte{0x80}, 9), 0x00), append(bytes.Repeat([]byte{0xff}, 8), 0x7f))
		tails := [][]byte{nil, {0x00}, {0x61, 0x62, 0x63}}
		for field := 1; field <= 9; field++ {
			for wt := 0; wt <= 5; wt++ {
				tag := byte(field<<3 | wt)
				for _, x := range extremes {
					for _, tl := range tails {
						buf := append(append([]byte{tag}, x...), tl...)
						decodeAll(ws[0], buf)
						// nested: token field 4 (metadata), length-delimited
						nested := refBytesField(nil, 0x22, buf)
						decodeAll(ws[0], nested)
						// after a valid first field
						decodeAll(ws[0], append([]byte{0x08, 0x01}, buf...))
					}
				}
			}
		}
		ws[0].Case("hostile-varints")
	}
	// decoded values are private: changing one decoded amount in place must not change what the
	// same (or another) buffer decodes to afterwards
	{
		caster := &data.BigIntCaster{}
		for _, v := range []*big.Int{big.NewInt(0), big.NewInt(1), big.NewInt(-1), big.NewInt(255), two64} {
			wire := refAmount(v)
			a, err1 := caster.Unmarshal(wire)
			b, err2 := caster.Unmarshal(wire)
			if err1 != nil || err2 != nil || a == nil || b == nil {
				continue
			}
			a.Add(a, big.NewInt(100))
			c, _ := caster.Unmarshal(wire)
			if b.Cmp(v) != 0 || c == nil || c.Cmp(v) != 0 {
				ws[0].Fail(P, "amount", "decoded-values-share-state", fmt.Sprintf("after adding 100 in place to one value decoded from %x, another decode of the same bytes gives %v / %v instead of %v", wire, b, c, v), "case", fmt.Sprintf("alias:%v", v))
			}
			t1, t2 := &esdt.ESDigitalToken{}, &esdt.ESDigitalToken{}
			enc, _ := (&esdt.ESDigitalToken{Value: v, Properties: []byte{1, 0}}).Marshal()
			if t1.Unmarshal(enc) == nil && t1.Value != nil {
				t1.Value.Add(t1.Value, big.NewInt(100))
				if t2.Unmarshal(enc) != nil || t2.Value == nil || t2.Value.Cmp(v) != 0 {
					ws[0].Fail(P, "amount", "decoded-values-share-state", fmt.Sprintf("after adding 100 in place to the value of one decoded token, decoding the same bytes %x gives value %v instead of %v", enc, t2.Value, v), "case", fmt.Sprintf("alias-token:%v", v))
				}
			}
			ws[0].Case("decode-private")
		}
	}
	ws[0].Sample(map[string]string{"value": "ESDigitalToken{Type:1, Value:-1, Properties:0100, TokenMetaData:{Nonce:1}, Reserved:01}", "reference_encoding": fmt.Sprintf("%x", refToken(&esdt.ESDigitalToken{Type: 1, Value: big.NewInt(-1), Properties: []byte{1, 0}, TokenMetaData: &esdt.MetaData{Nonce: 1}, Reserved: []byte{1}}))})
	ws[0].Sample(map[string]string{"amount": "2^64", "wire": fmt.Sprintf("%x", refAmount(two64))})
	return FinishEnum(P, tier, "exploration", start,
		fmt.Sprintf("exhaustive: all buffers of length 0..2 (and length 3: all in thorough, every 5th third byte in quick) into the amount decoder; all amounts nil, +-m for m < 65536, +-(2^k-1, 2^k, 2^k+1) for k = 16..130, +-(100-byte max) through Size/MarshalTo/Unmarshal; full product of field domains for the three messages (%d token values, %d metadata values, %d role lists) against a reference protobuf encoder; all byte strings of length <= %d over 256 values and <= %d over the 13 wire-significant bytes, plus every truncation and every single-byte substitution (13 bytes) of valid encodings, into the three decoders. A class is distinct by (decoder, accept/reject, length | field shape)", len(toks), len(metas), len(roles), maxFull, maxWire),
		[]string{"the reference encoder (60 lines, from esdt.proto) and the proto file are trusted", "MarshalTo into a buffer shorter than Size() is outside the statement and not exercised"},
		true, map[string]interface{}{"valid_encodings_mutated": len(valid) / step}, []string{"token:ok:len2", "token:err:len3", "meta:ok:len2", "roles:err:len1", "amount:nil"}, ws...)
}
