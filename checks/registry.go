package checks

// Registry maps property ids to their checks.
var Registry = map[string]func(Tier) int{
	"C01": C01,
	"C02": C02,
	"C03": C03,
	"C04": C04,
	"C05": C05,
	"C06": C06,
	"C08": C08,
	"C09": C09,
	"C10": C10,
	"C11": C11,
	"C07": C07,
	"C12": C12,
	"C13": C13,
	"C14": C14,
	"C15": C15,
	"C16": C16,
	"C17": C17,
	"C18": C18,
	"C20": C20,
}

// Replay re-executes a replay file without the explorer.
func Replay(path string) int {
	return replayFile(path)
}
