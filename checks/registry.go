package checks

// Registry maps property ids to their checks.
var Registry = map[string]func(Tier) int{
	"C01": C01,
}

// Replay re-executes a replay file without the explorer.
func Replay(path string) int {
	return replayFile(path)
}
