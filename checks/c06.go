package checks

import (
	"fmt"
	"math/bits"
	"time"

	"verif/engine/world"
)

// gasSum adds without wrapping: returns (sum, overflowed).
func gasSum(vals ...uint64) (uint64, bool) {
	var s, carry uint64
	over := false
	for _, v := range vals {
		s, carry = bits.Add64(s, v, 0)
		if carry != 0 {
			over = true
		}
	}
	return s, over
}

// C06 decides "built-in functions never create gas".
func C06(tier Tier) int {
	start := time.Now()
	const P = "C06"
	defEnv, err := world.NewEnv(ledgerEnv(2))
	if err != nil {
		panic(err)
	}
	cat := Catalogue(defEnv)
	selfCheck := CheckCatalogue(defEnv, cat)
	schedules := []namedSchedule{
		{"primes", world.PrimeSchedule(0)},
		{"all-2^32-1", world.MakeSchedule(func(int) uint64 { return 1<<32 - 1 })},
		{"all-1", world.MakeSchedule(func(int) uint64 { return 1 })},
	}
	if tier.Thorough() {
		schedules = append(schedules, namedSchedule{"primes-2", world.PrimeSchedule(1)}, namedSchedule{"mixed", world.MakeSchedule(func(i int) uint64 {
			if i%2 == 0 {
				return 1<<32 - 1
			}
			return 1
		})})
	}
	ws := make([]*Enum, NumWorkers())
	for i := range ws {
		ws[i] = NewEnum()
	}
	type job struct {
		ci, si int
	}
	var jobs []job
	for ci := range cat {
		for si := range schedules {
			jobs = append(jobs, job{ci, si})
		}
	}
	withGas := func(c CatEntry, g uint64, locked uint64) (*world.World, world.Action) {
		if c.Act.Kind == world.ActCall {
			a := c.Act
			a.Gas, a.GasLocked = g, locked
			return c.W, a
		}
		w := c.W.Clone()
		w.Inflight[c.Act.Msg].GasLimit = g
		w.Inflight[c.Act.Msg].GasLocked = locked
		w.SortInflight()
		return w, c.Act
	}
	// every class is also run under the other call types (an honest node delivers callbacks and
	// asynchronous calls too); variants that no longer succeed with ample gas are dropped
	{
		var more []CatEntry
		for _, c := range cat {
			for _, ct := range allCallTypes {
				v := c
				v.Name = fmt.Sprintf("%s[callType=%d]", c.Name, ct)
				if c.Act.Kind == world.ActCall {
					if c.Act.CallType == ct {
						continue
					}
					v.Act.CallType = ct
				} else {
					if c.W.Inflight[c.Act.Msg].CallType == ct {
						continue
					}
					w := c.W.Clone()
					w.Inflight[c.Act.Msg].CallType = ct
					v.W = w
				}
				vw, va := withGas(v, 1<<62, 0)
				if _, legs := defEnv.Step(vw, va); len(legs) > 0 && legs[0].OK() {
					more = append(more, v)
				}
			}
		}
		cat = append(cat, more...)
	}
	jobs = jobs[:0]
	for ci := range cat {
		for si := range schedules {
			jobs = append(jobs, job{ci, si})
		}
	}
	Parallel(len(jobs), func(wk, ji int) {
		e := ws[wk]
		c, sc := cat[jobs[ji].ci], schedules[jobs[ji].si]
		cfg := ledgerEnv(2)
		cfg.Schedule = sc.s
		env, err := world.NewEnv(cfg)
		if err != nil {
			panic(err)
		}
		// the charge for this input under this schedule, measured with ample gas
		const ample = uint64(1) << 62
		w0, a0 := withGas(c, ample, 0)
		_, legs := env.Step(w0, a0)
		if !legs[0].OK() {
			e.Fail(P, "harness", c.Name+":class-fails-with-ample-gas", fmt.Sprintf("class %s under schedule %s fails with ample gas: %v", c.Name, sc.name, legs[0].Err), "case", c.Name)
			return
		}
		fwd := uint64(0)
		for _, m := range legs[0].Outs {
			fwd += m.GasLimit
		}
		total := ample - legs[0].Out.GasRemaining - fwd
		senderLocal := legs[0].SndLocal
		own := builtin(sc.s, fieldOf(c.Func))
		cands := []uint64{0, 1, total, total + 1, own, own + 1, 1 << 32, 1 << 63, 1<<64 - 2, 1<<64 - 1, 2 * total, total + own}
		if total > 0 {
			cands = append(cands, total-1)
		}
		if own > 0 {
			cands = append(cands, own-1)
		}
		if sc.name == "all-1" {
			// with unit prices every per-byte component is a window one unit wide: sweep them all
			for d := uint64(2); d <= 64 && d <= total; d++ {
				cands = append(cands, total-d)
			}
		}
		if tier.Thorough() {
			for d := uint64(2); d < 40; d++ {
				if total >= d {
					cands = append(cands, total-d)
				}
				cands = append(cands, total+d)
			}
		}
		seen := map[uint64]bool{}
		for _, g := range cands {
			if seen[g] {
				continue
			}
			seen[g] = true
			// locked gas: none, little, more than the function's own price, more than the whole
			// charge, more than the gas provided, huge
			// ... and so large that price + locked gas wraps around 2^64
			for _, locked := range []uint64{0, 7, own + 1, total + 1, g + 1, 1 << 62, ^uint64(0), ^uint64(0) - own + 1, ^uint64(0) - total + 1} {
				w, a := withGas(c, g, locked)
				_, ls := env.Step(w, a)
				l := ls[0]
				rel := "ge-total"
				if g < total {
					rel = "below-total"
				}
				if l.Panic != nil {
					e.Case("gas:panic")
					continue
				}
				if !l.OK() {
					e.Case(fmt.Sprintf("gas:%s:%s:error", c.Func, rel))
					continue
				}
				vals := []uint64{l.Out.GasRemaining}
				for _, m := range l.Outs {
					vals = append(vals, m.GasLimit)
				}
				sum, over := gasSum(vals...)
				id := fmt.Sprintf("%s schedule=%s gas=%d locked=%d", c.Name, sc.name, g, locked)
				if over || sum > g {
					e.Fail(P, "no-gas-created", fmt.Sprintf("%s:%s", c.Func, sideName(l)), fmt.Sprintf("%s: GasProvided=%d but GasRemaining=%d + forwarded %v (sum %d, wrapped=%v); the call charges %d for this input", id, g, l.Out.GasRemaining, vals[1:], sum, over, total), "case", id)
				}
				if senderLocal && g < total && (over || sum != 0) {
					e.Fail(P, "below-charge", fmt.Sprintf("%s:%s", c.Func, sideName(l)), fmt.Sprintf("%s: the call charges %d for this input, was given %d, succeeded and left %d gas", id, total, g, sum), "case", id)
				}
				e.Case(fmt.Sprintf("gas:%s:%s:ok:fwd%d", c.Func, rel, len(l.Outs)))
			}
		}
		if ji%37 == 0 {
			e.Sample(map[string]interface{}{"class": c.Name, "schedule": sc.name, "charge_for_this_input": total, "gas_values_tried": len(seen), "call": DescribeAction(c.Act)})
		}
	})
	req := []string{"gas:SaveKeyValue:below-total:error", "gas:ESDTTransfer:ge-total:ok:fwd1", "gas:ESDTNFTTransfer:below-total:error", "gas:MultiESDTNFTTransfer:ge-total:ok:fwd1", "gas:SetUserName:ge-total:ok:fwd1"}
	code := FinishEnumWithSelf(P, tier, "exploration", start,
		fmt.Sprintf("for each of the %d successful transition classes (23 functions, both sides, refunds, no-op shapes such as SaveKeyValue with unchanged values) x %d schedules (distinct primes; all 2^32-1; all 1) the charge for that input is measured with ample gas, then GasProvided is swept over {0,1,own-1,own,own+1,total-1,total,total+1,2*total,2^32,2^63,2^64-2,2^64-1} x GasLocked {0, 7, own+1, charge+1, GasProvided+1, 2^62, 2^64-1, 2^64-own, 2^64-charge}; destination-side classes get the gas through the delivered message. A class is distinct by (function, below/at-or-above the charge, outcome, number of forwarding transfers)", len(cat), len(schedules)),
		[]string{"sums are formed in 128-bit arithmetic so that a wrapped value cannot hide", "the 'fails or consumes all' clause is asserted where the sender account is local (gas is paid only there)"},
		true, map[string]interface{}{"classes": len(cat), "schedules": len(schedules)}, req, selfCheck, ws...)
	return code
}

func sideName(l *world.Leg) string {
	if l.Input != nil && l.Input.ReturnCallAfterError {
		return "refund"
	}
	return l.Side
}

func fieldOf(fn string) string {
	switch fn {
	case "SetUserName":
		return "SaveUserName"
	case "MultiESDTNFTTransfer":
		return "ESDTNFTMultiTransfer"
	}
	return fn
}
