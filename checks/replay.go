package checks

import (
	"encoding/hex"
	"encoding/json"
	"fmt"
	"os"
	"os/exec"
	"path/filepath"
	"strings"

	"verif/engine/explore"
	"verif/engine/spec"
	"verif/engine/uni"
	"verif/engine/world"
)

// LedgerProfiles maps a property id to its E1 profiles (with oracles attached), for replays.
var LedgerProfiles = map[string]func(Tier) []*explore.Profile{}

// Replayers maps a replay kind to its re-execution routine (other engines register theirs).
var Replayers = map[string]func(property string, sig string, payload []byte) int{}

func replayFile(path string) int {
	b, err := os.ReadFile(path)
	if err != nil {
		fmt.Fprintln(os.Stderr, err)
		return 2
	}
	var v struct {
		Property string          `json:"property"`
		Clause   string          `json:"clause"`
		Sig      string          `json:"signature"`
		Detail   string          `json:"detail"`
		Kind     string          `json:"kind"`
		Replay   json.RawMessage `json:"replay"`
	}
	if err := json.Unmarshal(b, &v); err != nil {
		fmt.Fprintln(os.Stderr, err)
		return 2
	}
	fmt.Printf("replaying %s %s/%s\n  recorded: %s\n", v.Property, v.Clause, v.Sig, v.Detail)
	if v.Kind == "history" {
		return replayHistory(v.Property, v.Clause+"/"+v.Sig, v.Replay)
	}
	if r, ok := Replayers[v.Kind]; ok {
		return r(v.Property, v.Clause+"/"+v.Sig, []byte(v.Replay))
	}
	if v.Kind == "schedule" {
		// engine E4 replays need the overlay build (run19.sh / run.sh C13 produce it)
		for _, bin := range []string{"vcheck19", "vcheck13"} {
			exe := filepath.Join(Root, "bin", bin)
			if _, err := os.Stat(exe); err == nil {
				cmd := exec.Command(exe, "replay", path)
				cmd.Stdout, cmd.Stderr = os.Stdout, os.Stderr
				if err := cmd.Run(); err != nil {
					if ee, ok := err.(*exec.ExitError); ok {
						return ee.ExitCode()
					}
					return 2
				}
				return 0
			}
		}
		fmt.Println("schedule replays need bin/vcheck19 (./run19.sh quick builds it)")
		return 2
	}
	fmt.Printf("unknown replay kind %q\n", v.Kind)
	return 2
}

func describeLeg(l *world.Leg) string {
	s := fmt.Sprintf("    leg %s shard=%d %s snd=%v dst=%v -> ", l.Side, l.Shard, l.Func, l.SndLocal, l.DstLocal)
	switch {
	case l.Panic != nil:
		s += fmt.Sprintf("PANIC %v", l.Panic)
	case l.OK():
		s += fmt.Sprintf("ok gasRemaining=%d", l.Out.GasRemaining)
	default:
		s += fmt.Sprintf("err %v", l.Err)
	}
	if l.Pre != l.Post {
		d := spec.Delta(spec.Balances(l.Pre), spec.Balances(l.Post))
		s += "\n      balance diff " + spec.FmtDelta(d, uni.Name)
	}
	for _, m := range l.Emitted {
		s += fmt.Sprintf("\n      emitted %s->%s %s", uni.Name(m.From), uni.Name(m.To), shortData(m.Data))
	}
	for _, m := range l.LocalCalls {
		s += fmt.Sprintf("\n      local call to %s %s gas=%d", uni.Name(m.To), shortData(m.Data), m.GasLimit)
	}
	if l.Refund != nil {
		s += fmt.Sprintf("\n      refund created %s->%s", uni.Name(l.Refund.From), uni.Name(l.Refund.To))
	}
	if l.Stuck != nil {
		s += "\n      refund refused: stuck"
	}
	return s
}

func replayHistory(property, fullSig string, payload json.RawMessage) int {
	var hr HistoryReplay
	if err := json.Unmarshal(payload, &hr); err != nil {
		fmt.Fprintln(os.Stderr, err)
		return 2
	}
	mk, ok := LedgerProfiles[property]
	if !ok {
		fmt.Printf("no ledger profiles registered for %s\n", property)
		return 2
	}
	var prof *explore.Profile
	wantName := hr.Profile
	if strings.HasSuffix(wantName, "+long-ids") {
		wantName = strings.TrimSuffix(wantName, "+long-ids")
		useLongIDs(true)
		defer useLongIDs(false)
	}
	for _, tier := range []Tier{"quick", "thorough"} {
		for _, p := range mk(tier) {
			if p.Name == wantName && prof == nil {
				prof = p
			}
		}
	}
	if prof == nil {
		fmt.Printf("profile %s not found for %s\n", hr.Profile, property)
		return 2
	}
	var finals [2]string
	reproduced := false
	for run := 0; run < 2; run++ {
		env, err := world.NewEnv(prof.EnvCfg)
		if err != nil {
			fmt.Fprintln(os.Stderr, err)
			return 2
		}
		var w *world.World
		c := explore.NewCtx(env, prof)
		construction := strings.HasSuffix(hr.Seed, " (construction)")
		for _, s := range prof.Seeds(env) {
			if s.Name == hr.Seed {
				w = s.W
			}
			if construction && s.Name+" (construction)" == hr.Seed {
				// the violation was observed while the seed state was being built: re-run the oracles
				// on the construction legs
				w = s.W
				c.SetPosition(hr.Seed, nil, nil)
				for _, l := range s.Legs {
					if run == 0 {
						fmt.Println(describeLeg(l))
					}
					for _, o := range prof.Oracles {
						o.Leg(c, l)
					}
					if l.Post != nil && l.Post != l.Pre {
						for _, o := range prof.Oracles {
							o.State(c, l.Post)
						}
					}
				}
			}
		}
		if w == nil {
			fmt.Printf("seed %s not found\n", hr.Seed)
			return 2
		}
		var hist []world.Action
		if run == 0 {
			fmt.Printf("  seed %s: %s\n", hr.Seed, spec.FmtDelta(spec.Balances(w), uni.Name))
		}
		for i, aj := range hr.Actions {
			act, err := FromJSON(aj)
			if err != nil {
				fmt.Fprintln(os.Stderr, err)
				return 2
			}
			if (act.Kind == world.ActDeliver || act.Kind == world.ActDeliverTwice) && act.Msg >= len(w.Inflight) {
				fmt.Printf("HARNESS ERROR: replay diverged (no message #%d)\n", act.Msg)
				return 2
			}
			c.SetPosition(hr.Seed, hist, &act)
			post, legs := env.Step(w, act)
			if run == 0 {
				fmt.Printf("  step %d: %s\n", i+1, DescribeAction(act))
			}
			for _, l := range legs {
				if run == 0 {
					fmt.Println(describeLeg(l))
				}
				for _, o := range prof.Oracles {
					o.Leg(c, l)
				}
			}
			if prof.PostStep != nil {
				prof.PostStep(c, w, act, post, legs)
			}
			hist = append(hist, act)
			if post != w {
				c.SetPosition(hr.Seed, hist, nil)
				for _, o := range prof.Oracles {
					o.State(c, post)
				}
			}
			w = post
		}
		h := w.Hash(true)
		finals[run] = hex.EncodeToString(h[:])
		for _, v := range c.Violations() {
			if run == 0 {
				fmt.Printf("  observed violation %s %s/%s: %s\n", v.Property, v.Clause, v.Sig, v.Detail)
			}
			if v.Property == property && v.Clause+"/"+v.Sig == fullSig {
				reproduced = true
			}
		}
	}
	if finals[0] != finals[1] {
		fmt.Println("HARNESS ERROR: two replays of the same history reached different states")
		return 2
	}
	if reproduced {
		fmt.Printf("REPRODUCED property=%s %s (two identical runs)\n", property, fullSig)
		return 1
	}
	fmt.Printf("NOT REPRODUCED property=%s %s\n", property, fullSig)
	return 0
}

// replayWanted, when set, makes Finish report whether a violation with this signature recurs
// instead of writing evidence (replays of enumeration cases re-run the deterministic enumeration).
var replayWanted string

func rerunCheck(property, sig string) int {
	f, ok := Registry[property]
	if !ok {
		fmt.Printf("no check registered for %s\n", property)
		return 2
	}
	replayWanted = sig
	return f("quick")
}
