package checks

import (
	vmcommon "github.com/ElrondNetwork/elrond-vm-common"

	"verif/engine/explore"
	"verif/engine/spec"
	"verif/engine/uni"
	"verif/engine/world"
)

func lightTransfers(w *world.World, o menuOpts) []world.Action {
	var acts []world.Action
	for _, from := range users(o) {
		if h := held(w, from, tF); h > 0 {
			for _, to := range users(o) {
				if string(to) != string(from) {
					acts = append(acts, uni.ESDTTransfer(from, to, uni.F, 1))
				}
			}
			acts = append(acts, uni.ESDTTransfer(from, uni.S0, uni.F, 1, []byte("f")))
			// the same token twice in one list: each quantity is within the holding, the sum is not
			if h >= 2 {
				for _, to := range users(o) {
					if string(to) != string(from) {
						acts = append(acts, uni.Multi(from, to, []uni.Ent{{Tok: uni.F, Nonce: 0, Q: h - 1}, {Tok: uni.F, Nonce: 0, Q: 2}}),
							uni.Multi(from, to, []uni.Ent{{Tok: uni.F, Nonce: 0, Q: h}, {Tok: uni.F, Nonce: 0, Q: 1}}))
						break
					}
				}
			}
		}
		if h := held(w, from, tS1); h > 0 {
			for _, to := range users(o) {
				if string(to) != string(from) {
					acts = append(acts, uni.NFTTransfer(from, to, uni.S, 1, 1))
					acts = append(acts, uni.Multi(from, to, []uni.Ent{{Tok: uni.S, Nonce: 1, Q: 1}, {Tok: uni.F, Nonce: 0, Q: 1}}))
				}
			}
		}
	}
	return acts
}

// ---------------------------------------------------------------------------------------------
// C02

func c02Profiles(tier Tier) []*explore.Profile {
	o := menuOpts{thorough: tier.Thorough(), shards: 2}
	depth := 4
	if tier.Thorough() {
		depth = 5
	}
	orc := []explore.Oracle{&supplyOracle{property: "C02"}}
	supply := &explore.Profile{
		Name: "supply", EnvCfg: ledgerEnv(2), Depth: depth, Deadline: tierDeadline(tier), Oracles: orc,
		Seeds: func(env *world.Env) []explore.SeedState {
			out := seedsOf("fung", "sft", "frozen", "aliased")(env)
			// a contract that holds the fungible token (received with an attached call), so that
			// its own burns are within reach
			b := uni.SeedBuilder(env, "fung")
			b.Must(uni.ESDTTransfer(uni.A0, uni.S0, uni.F, 2, []byte("f")))
			return append(out, explore.SeedState{Name: "fung+contract-holder", W: b.W, Legs: b.Legs, Failed: b.Failed})
		},
		Menu: func(w *world.World) []world.Action {
			acts := supplyMenu(w, o)
			acts = append(acts, freezeMenu(w, o, true)...)
			acts = append(acts, lightTransfers(w, o)...)
			acts = append(acts, forgedArrivals(w)...)
			acts = append(acts, deliveries(w)...)
			return acts
		},
	}
	// every other function once per state of a shallow search: "leaves every balance unchanged"
	others := &explore.Profile{
		Name: "others", EnvCfg: ledgerEnv(2), Seeds: seedsOf("mixed", "frozen"), Depth: 2, Deadline: tierDeadline(tier), Oracles: orc,
		Menu: func(w *world.World) []world.Action {
			acts := accountMenu(w, o)
			acts = append(acts, roleMenu(w, o, [][]byte{uni.F, uni.S})...)
			acts = append(acts, impostorMenu(w, o)...)
			acts = append(acts, freezeMenu(w, o, true)...)
			acts = append(acts, deliveries(w)...)
			// tokens sent to the system account's own address by a user of its shard
			if held(w, uni.C1, tF) > 0 {
				acts = append(acts, uni.ESDTTransfer(uni.C1, uni.Sys, uni.F, 1))
			}
			return acts
		},
	}
	return []*explore.Profile{supply, others, amountsProfile("C02", tier), wideTransfersProfile(tier, orc), highNonceProfile("high-nonce", tier, orc, 2)}
}

func init() { LedgerProfiles["C02"] = c02Profiles }

// C02 decides "supply changes only by the stated amount".
func C02(tier Tier) int {
	return RunLedger("C02", tier, c02Profiles(tier), []string{"high-nonce-reached",
		"debit-exact:ESDTLocalBurn", "debit-exact:ESDTNFTBurn", "debit-exact:ESDTBurn", "wipe-ok",
		"sender:ESDTLocalMint:ok", "sender:ESDTNFTCreate:ok", "sender:ESDTNFTAddQuantity:ok", "sender:ESDTLocalBurn:err", "sender:ESDTNFTBurn:err",
	})
}

// ---------------------------------------------------------------------------------------------
// C04

func c04Profiles(tier Tier) []*explore.Profile {
	o := menuOpts{thorough: tier.Thorough(), shards: 2, extra: [][]byte{uni.Z1}, sysFlavours: true, repeatControls: true}
	depth := 3
	if tier.Thorough() {
		depth = 4
	}
	// the seeds additionally give tokens to z1, an ordinary account whose address ends in 0xff
	seeds := func(env *world.Env) []explore.SeedState {
		var out []explore.SeedState
		for _, n := range []string{"mixed", "frozen"} {
			b := uni.SeedBuilder(env, "mixed")
			b.Must(uni.ESDTTransfer(uni.A0, uni.Z1, uni.F, 2)).DeliverAll()
			b.Must(uni.NFTTransfer(uni.A0, uni.Z1, uni.S, 1, 1)).DeliverAll()
			// the local contract s0 holds both tokens (received with attached calls): what it gives
			// back after a failed call is a same-shard return flagged return-after-error
			b.Must(uni.ESDTTransfer(uni.A0, uni.S0, uni.F, 1, []byte("f")))
			b.Must(uni.NFTTransfer(uni.A0, uni.S0, uni.S, 1, 1, []byte("f")))
			if n == "frozen" {
				b.Must(uni.SysCall(uni.B0, vmcommon.BuiltInFunctionESDTFreeze, uni.F))
				b.Must(uni.PauseCall(1, vmcommon.BuiltInFunctionESDTPause, uni.F))
			}
			out = append(out, explore.SeedState{Name: n + "+z1", W: b.W, Legs: b.Legs, Failed: b.Failed})
		}
		// three refunds to a0 in flight (one per transfer function): a0 can be frozen before they arrive
		rb := uni.SeedBuilder(env, "refunds")
		out = append(out, explore.SeedState{Name: "refunds", W: rb.W, Legs: rb.Legs, Failed: rb.Failed})
		return out
	}
	p := &explore.Profile{
		Name: "freeze", EnvCfg: ledgerEnv(2), Seeds: seeds, Depth: depth, Deadline: tierDeadline(tier),
		Menu: func(w *world.World) []world.Action {
			acts := freezeMenu(w, o, true)
			acts = append(acts, transferMenuLight(w, o)...)
			acts = append(acts, supplyMenuLight(w, o)...)
			acts = append(acts, deliveries(w)...)
			// tokens sent to the system account's own address by a user of its shard
			if held(w, uni.C1, tF) > 0 {
				acts = append(acts, uni.ESDTTransfer(uni.C1, uni.Sys, uni.F, 1))
			}
			// same-shard returns by the contract s0, flagged return-after-error on both sides (the
			// paying and the receiving account are both present): they may credit a frozen account,
			// they must not end its freeze
			for _, to := range [][]byte{uni.A0, uni.B0} {
				var rets []world.Action
				if held(w, uni.S0, tF) > 0 {
					rets = append(rets, uni.ESDTTransfer(uni.S0, to, uni.F, 1), uni.Multi(uni.S0, to, []uni.Ent{{Tok: uni.F, Nonce: 0, Q: 1}}))
				}
				if held(w, uni.S0, tS1) > 0 {
					rets = append(rets, uni.NFTTransfer(uni.S0, to, uni.S, 1, 1), uni.Multi(uni.S0, to, []uni.Ent{{Tok: uni.S, Nonce: 1, Q: 1}}))
				}
				for _, r := range rets {
					r.ReturnAfterError = true
					acts = append(acts, r)
				}
			}
			// tokens handed out by the system contract itself (destination-side layout): the
			// receiving account is subject to freeze and pause like any other
			for _, to := range [][]byte{uni.B0, uni.C1} {
				acts = append(acts, uni.SysCall(to, vmcommon.BuiltInFunctionESDTTransfer, uni.F, uni.Big(1)))
			}
			return acts
		},
	}
	restoreDepth := 1
	if tier.Thorough() {
		restoreDepth = 2
	}
	p.Oracles = []explore.Oracle{&freezeOracle{property: "C04"}, &restoreOracle{property: "C04", o: o, maxDepth: restoreDepth, menu: p.Menu}}
	return []*explore.Profile{p}
}

func init() { LedgerProfiles["C04"] = c04Profiles }

// C04 decides "frozen accounts and paused tokens cannot move funds".
func C04(tier Tier) int {
	return RunLedger("C04", tier, c04Profiles(tier), []string{
		"refund-exempt", "sys:ESDTFreeze:ok", "sys:ESDTPause:ok", "sys:ESDTUnFreeze:ok", "sys:ESDTUnPause:ok", "sys:ESDTWipe:ok",
		"restore-checked:freeze", "restore-checked:pause", "blocked:frozen", "blocked:paused",
	})
}

// transferMenuLight: one quantity per (sender, destination, token) plus call-type variants.
func transferMenuLight(w *world.World, o menuOpts) []world.Action {
	var acts []world.Action
	for _, from := range senders(o) {
		if w.Get(from) == nil {
			continue
		}
		for _, to := range append([][]byte{uni.A0, uni.B0, uni.C1, uni.S0}, o.extra...) {
			if string(to) == string(from) {
				continue
			}
			var batch []world.Action
			if h := held(w, from, tF); h > 0 {
				batch = append(batch, uni.ESDTTransfer(from, to, uni.F, 1))
				batch = append(batch, uni.Multi(from, to, []uni.Ent{{Tok: uni.F, Nonce: 0, Q: 1}}))
				if h > 1 {
					// the whole holding (the entry disappears)
					acts = append(acts, uni.ESDTTransfer(from, to, uni.F, h), uni.Multi(from, to, []uni.Ent{{Tok: uni.F, Nonce: 0, Q: h}}))
				}
			}
			if h := held(w, from, tS1); h > 0 {
				batch = append(batch, uni.NFTTransfer(from, to, uni.S, 1, 1))
				batch = append(batch, uni.Multi(from, to, []uni.Ent{{Tok: uni.S, Nonce: 1, Q: 1}}))
				if held(w, from, tF) > 0 {
					batch = append(batch, uni.Multi(from, to, []uni.Ent{{Tok: uni.S, Nonce: 1, Q: 1}, {Tok: uni.F, Nonce: 0, Q: 1}}))
				}
				if h > 1 {
					acts = append(acts, uni.NFTTransfer(from, to, uni.S, 1, h))
				}
			}
			acts = append(acts, batch...)
			// every call flag combination: the other three call types, with and without an attached call
			for _, ct := range allCallTypes[1:] {
				for i, a := range batch {
					if !o.thorough && (i+int(ct))%2 == 0 && ct != vmcommon.AsynchronousCallBack {
						continue
					}
					a.CallType = ct
					acts = append(acts, a)
				}
			}
		}
	}
	return acts
}

func supplyMenuLight(w *world.World, o menuOpts) []world.Action {
	var acts []world.Action
	for _, a := range users(o) {
		acc := w.Get(a)
		if spec.HasRole(acc, tF, vmcommon.ESDTRoleLocalMint) || o.thorough {
			acts = append(acts, uni.Call(a, a, vmcommon.BuiltInFunctionESDTLocalMint, uni.F, uni.Big(1)))
			acts = append(acts, uni.Call(a, a, vmcommon.BuiltInFunctionESDTLocalBurn, uni.F, uni.Big(1)))
		}
		if held(w, a, tF) > 0 {
			acts = append(acts, uni.Call(a, uni.ESDT, vmcommon.BuiltInFunctionESDTBurn, uni.F, uni.Big(1)))
		}
		if spec.HasRole(acc, tS, vmcommon.ESDTRoleNFTCreate) || o.thorough {
			acts = append(acts, uni.Create(a, uni.S, 1))
			acts = append(acts, uni.Call(a, a, vmcommon.BuiltInFunctionESDTNFTAddQuantity, uni.S, uni.Big(1), uni.Big(1)))
			acts = append(acts, uni.Call(a, a, vmcommon.BuiltInFunctionESDTNFTBurn, uni.S, uni.Big(1), uni.Big(1)))
			acts = append(acts, uni.Call(a, a, vmcommon.BuiltInFunctionESDTNFTAddURI, uni.S, uni.Big(1), []byte("v")))
			acts = append(acts, uni.Call(a, a, vmcommon.BuiltInFunctionESDTNFTUpdateAttributes, uni.S, uni.Big(1), []byte("b")))
		}
	}
	return acts
}

// ---------------------------------------------------------------------------------------------
// C07

func c07Profiles(tier Tier) []*explore.Profile {
	o := menuOpts{thorough: tier.Thorough(), shards: 2}
	depth := 7
	if tier.Thorough() {
		depth = 9
	}
	p := &explore.Profile{
		Name: "nonce", EnvCfg: ledgerEnv(2), Depth: depth, Deadline: tierDeadline(tier), WithGhost: true,
		Oracles: []explore.Oracle{&nonceOracle{property: "C07"}},
		Seeds: func(env *world.Env) []explore.SeedState {
			var out []explore.SeedState
			for _, n := range []string{"sft", "handover"} {
				b := uni.SeedBuilder(env, n)
				// second collection R created by a0 (role only; its first NFT is issued inside the search)
				b.Must(uni.SetRole(uni.A0, uni.R, uni.NFTRoles...))
				out = append(out, explore.SeedState{Name: n + "+R", W: b.W, Legs: b.Legs, Failed: b.Failed})
			}
			return out
		},
		Menu: func(w *world.World) []world.Action {
			var acts []world.Action
			for _, tok := range [][]byte{uni.S, uni.R} {
				hi := int64(w.Ghost.Highest[string(tok)])
				for _, a := range users(o) {
					acts = append(acts, uni.Create(a, tok, 1), uni.Create(a, tok, 2))
					// giving up an older holding entirely (its key becomes free again)
					for n := int64(1); n <= 2 && n < hi; n++ {
						if h := held(w, a, string(tok)+spec.NonceSuffix(uint64(n))); h > 0 {
							acts = append(acts, uni.Call(a, a, vmcommon.BuiltInFunctionESDTNFTBurn, tok, uni.Big(n), uni.Big(h)))
						}
					}
					if hi > 0 {
						if held(w, a, string(tok)+spec.NonceSuffix(uint64(hi))) > 0 {
							acts = append(acts, uni.Call(a, a, vmcommon.BuiltInFunctionESDTNFTBurn, tok, uni.Big(hi), uni.Big(1)))
							for _, to := range users(o) {
								if string(to) != string(a) {
									acts = append(acts, uni.NFTTransfer(a, to, tok, hi, 1))
								}
							}
						}
					}
				}
			}
			acts = append(acts, handoverMenu(w, o, [][]byte{uni.S, uni.R})...)
			for i, m := range w.Inflight {
				acts = append(acts, uni.Deliver(i))
				if fn, _, ok := spec.SplitData(m.Data); ok && fn == vmcommon.BuiltInFunctionESDTNFTCreateRoleTransfer {
					acts = append(acts, world.Action{Kind: world.ActDeliverTwice, Msg: i})
				}
			}
			return acts
		},
	}
	// a contract as creator (its hand-over message travels with a contract as caller), and holders
	// that are granted a further role while a hand-over message to them is still in flight
	cc := &explore.Profile{
		Name: "contract-creator", EnvCfg: ledgerEnv(2), Depth: 6 + map[bool]int{true: 1, false: 0}[tier.Thorough()], Deadline: tierDeadline(tier), WithGhost: true,
		Oracles: []explore.Oracle{&nonceOracle{property: "C07"}},
		Seeds: func(env *world.Env) []explore.SeedState {
			b := uni.SeedBuilder(env, "sft")
			b.Must(uni.SetRole(uni.S0, uni.R, vmcommon.ESDTRoleNFTCreate))
			b.Must(uni.Create(uni.S0, uni.R, 1))
			return []explore.SeedState{{Name: "sft+contract-creator", W: b.W, Legs: b.Legs, Failed: b.Failed}}
		},
		Menu: func(w *world.World) []world.Action {
			var acts []world.Action
			holders := append(append([][]byte{}, users(o)...), uni.S0)
			for _, tok := range [][]byte{uni.S, uni.R} {
				for _, a := range holders {
					acts = append(acts, uni.Create(a, tok, 1))
				}
				// the system contract grants the add-quantity role to whoever its records show as
				// the creator or the creator-to-be (A7 a: only when not held)
				for _, a := range users(o) {
					if (w.GhostHasRole(a, string(tok), vmcommon.ESDTRoleNFTCreate) || spec.HasRole(w.Get(a), string(tok), vmcommon.ESDTRoleNFTCreate)) && !w.GhostHasRole(a, string(tok), vmcommon.ESDTRoleNFTAddQuantity) {
						acts = append(acts, uni.SetRole(a, tok, vmcommon.ESDTRoleNFTAddQuantity))
					}
				}
				if cur := anyHolder(w, string(tok), vmcommon.ESDTRoleNFTCreate); cur != nil && !handoverInFlight(w, string(tok)) {
					for _, next := range users(o) {
						if string(next) != string(cur) {
							acts = append(acts, uni.SysCall(cur, vmcommon.BuiltInFunctionESDTNFTCreateRoleTransfer, tok, next))
						}
					}
				}
			}
			for i := range w.Inflight {
				acts = append(acts, uni.Deliver(i))
			}
			return acts
		},
	}
	return []*explore.Profile{p, cc, highNonceProfile("high-nonce", tier, []explore.Oracle{&nonceOracle{property: "C07"}}, 3),
		highNonceProfileAt("high-nonce-256", tier, []explore.Oracle{&nonceOracle{property: "C07"}}, 3, 256)}
}

func handoverMenu(w *world.World, o menuOpts, toks [][]byte) []world.Action {
	var acts []world.Action
	for _, tok := range toks {
		if cur := anyHolder(w, string(tok), vmcommon.ESDTRoleNFTCreate); cur != nil && !handoverInFlight(w, string(tok)) {
			for _, next := range users(o) {
				if string(next) != string(cur) {
					acts = append(acts, uni.SysCall(cur, vmcommon.BuiltInFunctionESDTNFTCreateRoleTransfer, tok, next))
				}
			}
		}
	}
	return acts
}

func init() { LedgerProfiles["C07"] = c07Profiles }

// C07 decides "NFT nonces are unique and strictly increasing per token".
func C07(tier Tier) int {
	return RunLedger("C07", tier, c07Profiles(tier), []string{"high-nonce-reached",
		"create-continues", "handover-same-shard", "handover-cross-shard", "handover-delivered", "handover-delivered-twice", "handover-delivered-late",
		"create:R:nonce1", "create:S:nonce3", "create:S:nonce4",
	}, "A7 system-contract discipline: one create-role holder per token, role moved only by ESDTNFTCreateRoleTransfer to a different account, create role never unset")
}

// ---------------------------------------------------------------------------------------------
// C15

func c15Profiles(tier Tier) []*explore.Profile {
	o := menuOpts{thorough: tier.Thorough(), shards: 2}
	depth := 3
	if tier.Thorough() {
		depth = 4
	}
	p := &explore.Profile{
		Name: "wellformed", EnvCfg: ledgerEnv(2), Depth: depth, Deadline: tierDeadline(tier), WithGhost: true,
		Seeds:   seedsOf("empty", "fung", "sft", "mixed", "frozen", "handover"),
		Oracles: []explore.Oracle{&wellformedOracle{property: "C15"}},
		Menu: func(w *world.World) []world.Action {
			acts := supplyMenu(w, o)
			acts = append(acts, roleMenu(w, o, [][]byte{uni.F, uni.S})...)
			on := o
			on.nftFreeze = true
			acts = append(acts, freezeMenu(w, on, true)...)
			acts = append(acts, transferMenuLight(w, o)...)
			acts = append(acts, deliveries(w)...)
			if o.thorough {
				acts = append(acts, accountMenu(w, o)...)
			}
			// zero quantities (the sender side accepts them): nothing may be left behind anywhere,
			// with or without an attached call, on a user and on a contract of either shard
			for _, to := range [][]byte{uni.B0, uni.C1, uni.S0, uni.S1c} {
				for _, call := range [][][]byte{nil, {[]byte("f")}} {
					if held(w, uni.A0, tS1) > 0 {
						acts = append(acts, uni.NFTTransfer(uni.A0, to, uni.S, 1, 0, call...), uni.Multi(uni.A0, to, []uni.Ent{{Tok: uni.S, Nonce: 1, Q: 0}}, call...))
					}
					if held(w, uni.A0, tF) > 0 {
						acts = append(acts, uni.ESDTTransfer(uni.A0, to, uni.F, 0, call...), uni.Multi(uni.A0, to, []uni.Ent{{Tok: uni.F, Nonce: 0, Q: 0}}, call...))
					}
				}
			}
			// the whole holding leaves through a transfer flagged return-after-error (a same-shard
			// return executes the paying side with the flag set)
			for _, from := range users(o) {
				if h := held(w, from, tF); h > 0 {
					for _, to := range [][]byte{uni.A0, uni.C1} {
						if string(to) == string(from) {
							continue
						}
						a := uni.ESDTTransfer(from, to, uni.F, h)
						a.ReturnAfterError = true
						m := uni.Multi(from, to, []uni.Ent{{Tok: uni.F, Nonce: 0, Q: h}})
						m.ReturnAfterError = true
						acts = append(acts, a, m)
					}
				}
			}
			return acts
		},
	}
	// every function of the library (account-level functions, SaveKeyValue shapes, impostor calls,
	// argument-tail variants) in a shallower search
	all := &explore.Profile{
		Name: "all-functions", EnvCfg: ledgerEnv(2), Depth: 2, Deadline: tierDeadline(tier), WithGhost: true,
		Seeds:   seedsOf("mixed", "frozen", "handover"),
		Oracles: []explore.Oracle{&wellformedOracle{property: "C15"}},
		Menu:    func(w *world.World) []world.Action { return wholeMenu(w, o) },
	}
	if tier.Thorough() {
		all.Depth = 3
	}
	// the create / hand-over histories of C07's search under the well-formedness invariant (the
	// counter clause needs hand-overs there and back with creations in between)
	var handovers *explore.Profile
	for _, q := range c07Profiles(tier) {
		if q.Name == "nonce" {
			handovers = q
			handovers.Name = "create-and-hand-over"
			handovers.Oracles = []explore.Oracle{&wellformedOracle{property: "C15"}}
		}
	}
	return []*explore.Profile{p, all, handovers, highNonceProfile("high-nonce", tier, []explore.Oracle{&wellformedOracle{property: "C15"}}, 2)}
}

func init() { LedgerProfiles["C15"] = c15Profiles }

// C15 decides "the token state is well-formed after every history".
func C15(tier Tier) int {
	return RunLedger("C15", tier, c15Profiles(tier), []string{"high-nonce-reached",
		"sender:ESDTNFTCreate:ok", "sender:ESDTNFTBurn:ok", "sys:ESDTWipe:ok", "sys:ESDTUnSetRole:ok", "sys:ESDTNFTCreateRoleTransfer:ok", "dest:ESDTNFTCreateRoleTransfer:ok",
	}, "A7 system-contract discipline (roles set only when not held; NFT roles only on NFT tokens, mint/burn roles only on fungible tokens)")
}
