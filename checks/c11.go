package checks

import (
	"bytes"
	"encoding/hex"
	"fmt"
	"math/big"
	"os"
	"os/exec"
	"runtime"
	"runtime/debug"
	"strings"
	"syscall"
	"time"

	vmcommon "github.com/ElrondNetwork/elrond-vm-common"
	"github.com/ElrondNetwork/elrond-vm-common/data/esdt"

	"verif/engine/uni"
	"verif/engine/world"
)

func c11Pool() [][]byte {
	return [][]byte{
		{}, {0}, {1}, {2}, []byte(tF), []byte(tF1), []byte(tS),
		bytes.Repeat([]byte{0xff}, 8), {1, 0, 0, 0, 0, 0, 0, 0, 0},
		new(big.Int).SetUint64(0x5555555555555556).Bytes(), // 3n+2 = 4, 3n+1 = 3 (mod 2^64)
		new(big.Int).SetUint64(0xAAAAAAAAAAAAAAAB).Bytes(), // 3n+2 = 3, 3n+1 = 2 (mod 2^64)
		{1, 0, 0}, // 2^16
		uni.B0[:31], uni.B0,
	}
}

func c11ExtraPool() [][]byte {
	valid, _ := (&esdt.ESDigitalToken{Type: 1, Value: big.NewInt(1), TokenMetaData: &esdt.MetaData{Nonce: 1, Hash: []byte("h")}}).Marshal()
	out := [][]byte{append(append([]byte{}, uni.B0...), 0), valid, valid[:len(valid)-2], {0x08, 0x01, 0x22, 0x02, 0x08, 0x01}, uni.C1, uni.S0, uni.M, vmcommon.ESDTSCAddress}
	for _, r := range uni.AllRoles {
		out = append(out, []byte(r))
	}
	out = append(out, wrapResidues()...)
	return out
}

type c11Stats struct {
	e *Enum
}

func legShape(l *world.Leg) string {
	switch {
	case l.Panic != nil:
		return "panic"
	case l.Out != nil && l.Err == nil && l.Out.ReturnCode == vmcommon.Ok:
		return "ok"
	case l.Out == nil && l.Err != nil:
		return "err"
	case l.Out != nil && l.Err != nil:
		return "output-and-error"
	case l.Out == nil && l.Err == nil:
		return "neither"
	}
	return "non-ok-return-code"
}

func panicClass(l *world.Leg) string {
	msg := fmt.Sprint(l.Panic)
	switch {
	case strings.Contains(msg, "makeslice"):
		return "count-overflow"
	case strings.Contains(msg, "nil pointer"):
		return "nil-dereference"
	case strings.Contains(msg, "out of range"):
		return "index-out-of-range"
	}
	return "other"
}

func argsID(fn string, args [][]byte) string {
	var h []string
	for _, a := range args {
		h = append(h, hex.EncodeToString(a))
	}
	return fn + "@" + strings.Join(h, "@")
}

// checkTotal runs one call through the driver and checks the (output, error) shape of every leg;
// every message a successful sender-side execution emits is delivered (closure under A4-A6).
func checkTotal(e *Enum, env *world.Env, w *world.World, act world.Action, state string) {
	const P = "C11"
	post, legs := env.Step(w, act)
	check := func(l *world.Leg, what string) {
		if l.Input == nil || l.NotBuiltin {
			return
		}
		shape := legShape(l)
		id := map[string]interface{}{"state": state, "action": ToJSON(act), "leg": what}
		switch shape {
		case "ok", "err":
		case "panic":
			first := ""
			for _, ln := range strings.Split(l.PanicStack, "\n") {
				if strings.Contains(ln, "builtInFunctions/") && strings.Contains(ln, ".go:") {
					first = strings.TrimSpace(ln)
					break
				}
			}
			e.Fail(P, "panic", fmt.Sprintf("%s:%s:%s", l.Func, sideName(l), panicClass(l)), fmt.Sprintf("%s (%s leg, state %s) panicked on %s: %v [%s]", l.Func, what, state, argsID(l.Func, l.Input.Arguments), l.Panic, first), "call", id)
		default:
			e.Fail(P, "shape", fmt.Sprintf("%s:%s:%s", l.Func, sideName(l), shape), fmt.Sprintf("%s (%s leg) returned %s on %s", l.Func, what, shape, argsID(l.Func, l.Input.Arguments)), "call", id)
		}
		e.Case(fmt.Sprintf("%s:%s:%s", l.Func, sideName(l), shape))
	}
	for _, l := range legs {
		check(l, l.Side)
	}
	if len(legs) > 0 && legs[0].OK() && post != w {
		for i := range post.Inflight {
			p2, dl := env.Step(post, uni.Deliver(i))
			for _, l := range dl {
				check(l, "delivery")
				if l.Refund != nil {
					for j, m := range p2.Inflight {
						if m.Refund {
							_, rl := env.Step(p2, uni.Deliver(j))
							for _, l2 := range rl {
								check(l2, "refund")
							}
						}
					}
				}
			}
		}
	}
}

func c11States(env *world.Env, thorough bool) map[string]*world.World {
	out := map[string]*world.World{}
	out["mixed"] = catalogueBase(env)
	b := &uni.Builder{Env: env, W: uni.Seed(env, "mixed")}
	b.Must(uni.SetRole(uni.A0, uni.F, uni.NFTRoles...))
	b.Must(uni.SetRole(uni.A0, uni.S1, vmcommon.ESDTRoleLocalMint, vmcommon.ESDTRoleLocalBurn))
	out["aliased"] = b.W
	// destination-side aliasing: e2 holds the fungible token "S\x01" (undisciplined system contract),
	// whose key equals the key of the NFT (S, 1) that a0, b0 and c1 hold
	b2 := &uni.Builder{Env: env, W: uni.Seed(env, "mixed")}
	b2.Must(uni.SetRole(uni.E2, uni.S1, vmcommon.ESDTRoleLocalMint, vmcommon.ESDTRoleLocalBurn))
	b2.Must(uni.Call(uni.E2, uni.E2, vmcommon.BuiltInFunctionESDTLocalMint, uni.S1, uni.Big(5)))
	out["aliased-destination"] = b2.W
	if thorough {
		out["frozen"] = uni.Seed(env, "frozen")
		out["handover"] = uni.Seed(env, "handover")
	}
	return out
}

// C11 decides "built-in functions are total on transaction-reachable input". The enumeration runs
// in a worker subprocess with an address-space limit, so that an allocation proportional to an
// argument kills the worker (reported as a violation) instead of the machine.
func C11(tier Tier) int {
	if os.Getenv("VERIF_C11_WORKER") == "1" {
		return c11Worker(tier)
	}
	cmd := exec.Command(os.Args[0], "C11", string(tier))
	cmd.Env = append(os.Environ(), "VERIF_C11_WORKER=1")
	var stderr bytes.Buffer
	cmd.Stdout = os.Stdout
	cmd.Stderr = &stderr
	err := cmd.Run()
	os.Stderr.Write(stderr.Bytes())
	if err == nil {
		return 0
	}
	code := -1
	if ee, ok := err.(*exec.ExitError); ok {
		code = ee.ExitCode()
	}
	fatal := strings.Contains(stderr.String(), "fatal error:") || code < 0 || code > 2
	if !fatal {
		return code
	}
	// the worker died: out of memory or another unrecoverable runtime error
	tail := stderr.String()
	if len(tail) > 1500 {
		tail = tail[:1500]
	}
	start := time.Now()
	o := &Outcome{Property: "C11", Tier: tier, Level: "exploration", Start: start,
		Coverage:   map[string]interface{}{"evaluations": 1, "distinct_nontrivial": 2, "rule": "worker subprocess died", "samples": []interface{}{tail}, "exhaustive": false},
		Violations: []Viol{{Property: "C11", Clause: "resource", Sig: "worker-died", Detail: "the enumeration worker died with an unrecoverable runtime error (address-space limit 16 GiB): " + tail, Kind: "case", Replay: tail}}}
	return Finish(o)
}

func c11Worker(tier Tier) int {
	start := time.Now()
	const P = "C11"
	_ = syscall.Setrlimit(syscall.RLIMIT_AS, &syscall.Rlimit{Cur: 16 << 30, Max: 16 << 30})
	pool := c11Pool()
	full := append(append([][]byte{}, pool...), c11ExtraPool()...)
	names := append([]string{}, protocolNames...)
	nw := NumWorkers()
	ws := make([]*Enum, nw)
	envs := make([]*world.Env, nw)
	for i := range ws {
		ws[i] = NewEnum()
		env, err := world.NewEnv(ledgerEnv(2))
		if err != nil {
			panic(err)
		}
		envs[i] = env
	}
	states := c11States(envs[0], tier.Thorough())
	var stateNames []string
	for k := range states {
		stateNames = append(stateNames, k)
	}
	// (0) early allocation probe: a function that allocates proportionally to a count makes every
	// later enumeration step cost hundreds of megabytes; if the probe already shows it, report and
	// stop here instead of grinding through the rest
	{
		probe := NewEnum()
		debug.SetGCPercent(-1)
		world.MeasureAlloc = true
		w := states["mixed"]
		var counts [][]byte
		counts = append(counts, []byte{1, 0, 0}, []byte{0xff, 0xff, 0xff}, []byte{1, 0, 0, 0, 0}, pool[9], pool[10], bytes.Repeat([]byte{0xff}, 8))
		counts = append(counts, wrapResidues()...)
		for _, cnt := range counts {
			for _, args := range [][][]byte{{uni.B0, cnt, []byte("F"), {0}, {1}}, {cnt, []byte("F"), {0}, {1}}, {uni.B0, cnt, []byte("F"), {0}, {1}, []byte("F"), {0}, {1}}} {
				for _, caller := range [][]byte{uni.A0, uni.ESDT} {
					rcp := uni.A0
					if !bytes.Equal(caller, uni.A0) {
						rcp = uni.B0
					}
					act := world.Action{Kind: world.ActCall, Caller: caller, Recipient: rcp, Func: vmcommon.BuiltInFunctionMultiESDTNFTTransfer, Args: args, Gas: 1 << 62}
					_, legs := envs[0].Step(w, act)
					in := uint64(0)
					for _, a := range args {
						in += uint64(len(a))
					}
					l := legs[0]
					limit := uint64(1<<20) + 64*(in+4096)
					if l.AllocBytes > limit {
						probe.Fail(P, "allocation", "MultiESDTNFTTransfer:"+sideName(l), fmt.Sprintf("MultiESDTNFTTransfer on %s allocated %d bytes for %d input bytes (bound %d)", argsID(l.Func, args), l.AllocBytes, in, limit), "call", map[string]interface{}{"state": "mixed", "action": ToJSON(act)})
					}
					probe.Case("alloc-probe:" + legShape(l))
				}
			}
		}
		world.MeasureAlloc = false
		debug.SetGCPercent(400)
		runtime.GC()
		if len(probe.Viols) > 0 {
			return FinishEnum(P, tier, "exploration", start, "early allocation probe only: MultiESDTNFTTransfer with every wrap-around residue and large counts in three layouts; the full enumeration was not run because the probe already shows an allocation proportional to an argument",
				[]string{"allocation bound: 1 MiB + 64 x (input bytes + 4096)"}, false, map[string]interface{}{"stopped_after_probe": true}, nil, probe)
		}
		ws[0].Merge(probe)
	}
	// (i) all argument lists of length 0..3 over the 14-item pool
	var lists [][][]byte
	var gen func(cur [][]byte, depth int)
	gen = func(cur [][]byte, depth int) {
		lists = append(lists, cur)
		if depth == 0 {
			return
		}
		for _, it := range pool {
			gen(append(append([][]byte{}, cur...), it), depth-1)
		}
	}
	gen(nil, 3)
	type who struct{ caller, recipient []byte }
	patterns := []who{{uni.A0, uni.A0}, {uni.A0, uni.B0}, {uni.A0, uni.C1}, {uni.ESDT, uni.B0}, {uni.A0, uni.ESDT}, {uni.S0, uni.S0}, {uni.ESDT, uni.Sys}, {uni.A0, uni.Sys}}
	callTypes := []vmcommon.CallType{vmcommon.DirectCall, vmcommon.AsynchronousCallBack}
	gases := []uint64{0, 1<<64 - 1}
	if tier.Thorough() {
		callTypes = allCallTypes
	}
	Parallel(len(lists), func(wk, li int) {
		e, env := ws[wk], envs[wk]
		args := lists[li]
		for _, fn := range names {
			for _, p := range patterns {
				for _, ct := range callTypes {
					for _, g := range gases {
						for _, sn := range stateNames {
							act := world.Action{Kind: world.ActCall, Caller: p.caller, Recipient: p.recipient, Func: fn, Args: args, Gas: g, CallType: ct}
							checkTotal(e, env, states[sn], act, sn)
						}
					}
				}
			}
		}
	})
	// aliasing probes: every transfer function between the holder of the fungible "S\x01" and the
	// holders of the NFT (S,1), in both directions, same- and cross-shard, plus the supply functions
	{
		e, env := ws[0], envs[0]
		w := states["aliased-destination"]
		var probes []world.Action
		for _, to := range [][]byte{uni.B0, uni.A0, uni.C1} {
			probes = append(probes, uni.ESDTTransfer(uni.E2, to, uni.S1, 1), uni.Multi(uni.E2, to, []uni.Ent{{Tok: uni.S1, Nonce: 0, Q: 1}}),
				uni.Multi(uni.E2, to, []uni.Ent{{Tok: uni.S, Nonce: 1, Q: 1}}), uni.NFTTransfer(uni.E2, to, uni.S, 1, 1),
				uni.Multi(uni.E2, to, []uni.Ent{{Tok: uni.S1, Nonce: 0, Q: 5}, {Tok: uni.S1, Nonce: 0, Q: 1}}))
		}
		for _, from := range [][]byte{uni.A0, uni.B0, uni.C1} {
			probes = append(probes, uni.NFTTransfer(from, uni.E2, uni.S, 1, 1), uni.Multi(from, uni.E2, []uni.Ent{{Tok: uni.S, Nonce: 1, Q: 1}}),
				uni.ESDTTransfer(from, uni.E2, uni.S1, 1), uni.Multi(from, uni.E2, []uni.Ent{{Tok: uni.S1, Nonce: 0, Q: 1}}))
		}
		probes = append(probes, uni.Call(uni.E2, uni.E2, vmcommon.BuiltInFunctionESDTLocalBurn, uni.S1, uni.Big(1)), uni.SysCall(uni.E2, vmcommon.BuiltInFunctionESDTFreeze, uni.S1),
			uni.SysCall(uni.B0, vmcommon.BuiltInFunctionESDTFreeze, uni.S1), uni.SysCall(uni.B0, vmcommon.BuiltInFunctionESDTWipe, uni.S1))
		for _, a := range probes {
			checkTotal(e, env, w, a, "aliased-destination")
			// the same with the return-after-error flag (a same-shard return executes with it)
			f := a
			f.ReturnAfterError = true
			checkTotal(e, env, w, f, "aliased-destination")
		}
	}
	ws[0].Sample(map[string]interface{}{"function": "MultiESDTNFTTransfer", "caller=recipient": "a0", "args": []string{hex.EncodeToString(uni.B0), "5555555555555556", "46"}, "expect": "error (count wraps 3n+2 to 4), no panic"})
	// (ii) deviation-bounded: every replacement / insertion / deletion of <= d positions of every
	// sender-side base case of the catalogue by every item of the full pool
	cat := Catalogue(envs[0])
	var bases []CatEntry
	for _, c := range cat {
		if c.Act.Kind == world.ActCall {
			bases = append(bases, c)
		}
	}
	d := 2
	if tier.Thorough() {
		d = 3
	}
	type edit struct {
		kind int // 0 replace, 1 insert, 2 delete
		pos  int
		item int
	}
	applyEdit := func(args [][]byte, ed edit) [][]byte {
		switch ed.kind {
		case 0:
			if ed.pos >= len(args) {
				return nil
			}
			out := append([][]byte{}, args...)
			out[ed.pos] = full[ed.item]
			return out
		case 1:
			if ed.pos > len(args) {
				return nil
			}
			out := append([][]byte{}, args[:ed.pos]...)
			out = append(out, full[ed.item])
			return append(out, args[ed.pos:]...)
		default:
			if ed.pos >= len(args) {
				return nil
			}
			out := append([][]byte{}, args[:ed.pos]...)
			return append(out, args[ed.pos+1:]...)
		}
	}
	editsFor := func(n int) []edit {
		var out []edit
		for pos := 0; pos <= n; pos++ {
			for it := range full {
				if pos < n {
					out = append(out, edit{0, pos, it})
				}
				out = append(out, edit{1, pos, it})
			}
			if pos < n {
				out = append(out, edit{2, pos, 0})
			}
		}
		return out
	}
	var sweepOnly []CatEntry
	// further base cases on states the catalogue does not build: role lists holding a name twice
	// (ESDTSetRole does not de-duplicate), a sender rich enough for long entry lists
	{
		dup := &uni.Builder{Env: envs[0], W: catalogueBase(envs[0])}
		dup.Must(uni.SetRole(uni.B0, uni.S, vmcommon.ESDTRoleNFTBurn, vmcommon.ESDTRoleNFTAddQuantity, vmcommon.ESDTRoleNFTBurn))
		dup.Must(uni.SetRole(uni.A0, uni.S, vmcommon.ESDTRoleNFTCreate))
		dup.Must(uni.SetRole(uni.A0, uni.F, vmcommon.ESDTRoleLocalBurn, vmcommon.ESDTRoleLocalBurn))
		rich := &uni.Builder{Env: envs[0], W: catalogueBase(envs[0])}
		rich.Must(uni.Call(uni.A0, uni.A0, vmcommon.BuiltInFunctionESDTLocalMint, uni.F, uni.Big(500)))
		rich.Must(uni.Call(uni.A0, uni.A0, vmcommon.BuiltInFunctionESDTNFTAddQuantity, uni.S, uni.Big(1), uni.Big(500)))
		if dup.Failed != "" || rich.Failed != "" {
			ws[0].Fail(P, "harness", "extra-bases", "construction of the extra base states failed: "+dup.Failed+rich.Failed, "case", "extra-bases")
		} else {
			add := func(name string, w *world.World, act world.Action) {
				c := CatEntry{Name: name, Func: act.Func, W: w, Act: act, Light: len(act.Args) > 4}
				sweepOnly = append(sweepOnly, c)
				if len(act.Args) <= 8 {
					bases = append(bases, c)
				}
			}
			add("ESDTUnSetRole/name-stored-twice", dup.W, uni.UnSetRole(uni.B0, uni.S, vmcommon.ESDTRoleNFTBurn))
			add("ESDTUnSetRole/name-stored-twice-fungible", dup.W, uni.UnSetRole(uni.A0, uni.F, vmcommon.ESDTRoleLocalBurn))
			add("ESDTUnSetRole/create-stored-twice", dup.W, uni.UnSetRole(uni.A0, uni.S, vmcommon.ESDTRoleNFTCreate))
			add("ESDTNFTCreateRoleTransfer/create-stored-twice", dup.W, uni.SysCall(uni.A0, vmcommon.BuiltInFunctionESDTNFTCreateRoleTransfer, uni.S, uni.B0))
			add("ESDTNFTCreateRoleTransfer/create-stored-twice-cross-shard", dup.W, uni.SysCall(uni.A0, vmcommon.BuiltInFunctionESDTNFTCreateRoleTransfer, uni.S, uni.C1))
			add("ESDTSetRole/name-given-twice", dup.W, uni.SetRole(uni.B0, uni.S, vmcommon.ESDTRoleNFTBurn, vmcommon.ESDTRoleNFTBurn))
			// every transfer class of the catalogue again with a payability oracle that answers
			// every query with an error (an environment answer C09 quantifies over)
			for _, c := range cat {
				if c.Act.Kind == world.ActCall && world.TransferFuncs[c.Func] {
					w := c.W.Clone()
					for _, d := range [][]byte{uni.A0, uni.B0, uni.C1, uni.S0, uni.S1c, uni.E2} {
						w.Payable[string(d)] = world.PayError
					}
					plain := c.Act
					sweepOnly = append(sweepOnly, CatEntry{Name: c.Name + "[payability-error]", Func: c.Func, W: w, Act: plain, Light: true})
					// ... and with one that answers "not payable" without an error (what the node's
					// handler answers for a non-payable contract), for every destination
					wn := c.W.Clone()
					for _, d := range [][]byte{uni.A0, uni.B0, uni.C1, uni.S0, uni.S1c, uni.E2} {
						wn.Payable[string(d)] = world.PayNo
					}
					sweepOnly = append(sweepOnly, CatEntry{Name: c.Name + "[not-payable]", Func: c.Func, W: wn, Act: plain, Light: true})
				}
			}
			// the system account stores the pause flag under the key an account's holding has: a
			// freeze / un-freeze / wipe addressed to it finds bytes that are not a token entry
			{
				paused := &uni.Builder{Env: envs[0], W: catalogueBase(envs[0])}
				paused.Must(uni.PauseCall(1, vmcommon.BuiltInFunctionESDTPause, uni.F))
				released := &uni.Builder{Env: envs[0], W: paused.W}
				released.Must(uni.PauseCall(1, vmcommon.BuiltInFunctionESDTUnPause, uni.F))
				if paused.Failed == "" && released.Failed == "" {
					for _, fn := range []string{vmcommon.BuiltInFunctionESDTFreeze, vmcommon.BuiltInFunctionESDTUnFreeze, vmcommon.BuiltInFunctionESDTWipe} {
						onSys := world.Action{Kind: world.ActCall, Caller: uni.ESDT, Recipient: uni.Sys, Func: fn, Args: [][]byte{uni.F}, Gas: uni.Gas, Shard: 1}
						add(fn+"/system-account-while-paused", paused.W, onSys)
						add(fn+"/system-account-after-unpause", released.W, onSys)
					}
				}
			}
			// freeze markers under identifiers that end in (or contain) a dash, then their wipe (the
			// wipe is the one call of the family that builds a log from the identifier)
			for _, id := range [][]byte{[]byte("S-"), []byte("S\x2d\x01"), []byte("F-1"), []byte("-"), []byte("TOKENS-1"), []byte("COLLECT-a1b2c3-"), []byte("COLLECT-a1b2c3\x2d\x01"), []byte("COLLECT-a1b2c3\x01\x2d"), []byte("-------")} {
				mk := &uni.Builder{Env: envs[0], W: catalogueBase(envs[0])}
				mk.Must(uni.SysCall(uni.B0, vmcommon.BuiltInFunctionESDTFreeze, id))
				if mk.Failed == "" {
					add(fmt.Sprintf("ESDTWipe/marker-%x", id), mk.W, uni.SysCall(uni.B0, vmcommon.BuiltInFunctionESDTWipe, id))
					add(fmt.Sprintf("ESDTUnFreeze/marker-%x", id), mk.W, uni.SysCall(uni.B0, vmcommon.BuiltInFunctionESDTUnFreeze, id))
				}
			}
			add("ESDTNFTCreateRoleTransfer/to-the-holder-itself", dup.W, uni.SysCall(uni.B0, vmcommon.BuiltInFunctionESDTNFTCreateRoleTransfer, uni.S, uni.B0))
			for _, to := range [][]byte{uni.B0, uni.C1, uni.S0, uni.S1c} {
				for _, n := range []int{1, 2, 3, 4, 5, 6, 8, 11, 16, 21, 32} {
					var ents []uni.Ent
					for i := 0; i < n; i++ {
						if i%2 == 0 {
							ents = append(ents, uni.Ent{Tok: uni.F, Nonce: 0, Q: 1})
						} else {
							ents = append(ents, uni.Ent{Tok: uni.S, Nonce: 1, Q: 1})
						}
					}
					add(fmt.Sprintf("MultiESDTNFTTransfer/%d-entries-to-%s", n, uni.Name(to)), rich.W, uni.Multi(uni.A0, to, ents))
				}
			}
		}
	}
	// every base case as it is, and with its argument list grown by 1..40 further arguments (an
	// attached call with ever more arguments for the transfers)
	sweep := append(append([]CatEntry{}, cat...), sweepOnly...)
	Parallel(len(sweep), func(wk, bi int) {
		e, env := ws[wk], envs[wk]
		b := sweep[bi]
		if b.Act.Kind != world.ActCall {
			// a delivery class: the message is executed as it is (its content is what the sender side
			// emitted; it is not hand-made)
			checkTotal(e, env, b.W, b.Act, "catalogue:"+b.Name)
			return
		}
		// the same call a second time on the state the first one left (second claim of nothing,
		// second hand-over, second delete ...)
		if post, legs := env.Step(b.W, b.Act); len(legs) > 0 && legs[0].OK() && post != b.W {
			checkTotal(e, env, post, b.Act, "catalogue:"+b.Name+"(repeated)")
			if third, l2 := env.Step(post, b.Act); len(l2) > 0 && l2[0].OK() && third != post {
				checkTotal(e, env, third, b.Act, "catalogue:"+b.Name+"(repeated twice)")
			}
		}
		for extra := 0; extra <= 40; extra++ {
			for _, filler := range [][]byte{[]byte("f"), {}} {
				act := b.Act
				act.Args = append([][]byte{}, b.Act.Args...)
				for i := 0; i < extra; i++ {
					act.Args = append(act.Args, filler)
				}
				for _, g := range gases {
					act.Gas = g
					checkTotal(e, env, b.W, act, "catalogue:"+b.Name)
				}
				if extra == 0 {
					break
				}
			}
		}
	})
	type job struct {
		base int
		e1   int
	}
	var jobs []job
	for bi, b := range bases {
		for e1 := range editsFor(len(b.Act.Args)) {
			jobs = append(jobs, job{bi, e1})
		}
	}
	var deviated int64
	Parallel(len(jobs), func(wk, ji int) {
		e, env := ws[wk], envs[wk]
		b := bases[jobs[ji].base]
		e1 := editsFor(len(b.Act.Args))[jobs[ji].e1]
		a1 := applyEdit(b.Act.Args, e1)
		if a1 == nil {
			return
		}
		run := func(args [][]byte) {
			for _, g := range gases {
				act := b.Act
				act.Args = args
				act.Gas = g
				checkTotal(e, env, b.W, act, "catalogue:"+b.Name)
			}
		}
		run(a1)
		if d >= 2 && !b.Light {
			// second deviation: positions at or after the first one (unordered pairs once)
			for _, e2 := range editsFor(len(a1)) {
				if e2.pos < e1.pos || len(a1) > 9 && e2.kind == 1 && e2.item%3 != 0 {
					continue
				}
				a2 := applyEdit(a1, e2)
				if a2 == nil {
					continue
				}
				run(a2)
				if d >= 3 && jobs[ji].e1%5 == 0 {
					for _, e3 := range editsFor(len(a2)) {
						if e3.pos < e2.pos || e3.kind != 0 {
							continue
						}
						if a3 := applyEdit(a2, e3); a3 != nil {
							run(a3)
						}
					}
				}
			}
		}
	})
	_ = deviated
	// (iii) allocation: single-threaded pass over the calls whose arguments carry counts
	alloc := NewEnum()
	{
		debug.SetGCPercent(-1)
		world.MeasureAlloc = true
		env := envs[0]
		w := states["mixed"]
		worst := uint64(0)
		worstID := ""
		// lists long enough to pass the argument-count guards: length 4..5 (4..6 thorough) over
		// {b0, 1, 2, 2^16, the two wrap-around residues, "F", 0}
		cpool := [][]byte{uni.B0, {1}, {2}, {1, 0, 0}, pool[9], pool[10], []byte("F"), {0}}
		residues := wrapResidues()
		var clists [][][]byte
		maxL := 5
		if tier.Thorough() {
			maxL = 6
		}
		var cgen func(cur [][]byte)
		cgen = func(cur [][]byte) {
			if len(cur) >= 4 {
				clists = append(clists, cur)
			}
			if len(cur) == maxL {
				return
			}
			for _, it := range cpool {
				cgen(append(append([][]byte{}, cur...), it))
			}
		}
		cgen(nil)
		// every wrap-around residue as the count of a sender-side and a destination-side layout
		for _, r := range residues {
			for _, tail := range [][][]byte{{[]byte("F"), {0}, {1}}, {[]byte("F"), {0}, {1}, {1}}, {[]byte("F"), {1}}, {[]byte("F")}} {
				clists = append(clists, append([][]byte{uni.B0, r}, tail...), append([][]byte{r}, tail...))
			}
		}
		for _, args := range clists {
			for _, p := range []who{{uni.A0, uni.A0}, {uni.ESDT, uni.B0}, {uni.C1, uni.B0}} {
				act := world.Action{Kind: world.ActCall, Caller: p.caller, Recipient: p.recipient, Func: vmcommon.BuiltInFunctionMultiESDTNFTTransfer, Args: args, Gas: 1 << 62}
				if w.ShardOf(p.caller) != 0 && w.ShardOf(p.caller) != vmcommon.MetachainShardId {
					// destination-side layout with the sender on another shard: executed as a delivery
					act.Caller = uni.ESDT
				}
				_, legs := env.Step(w, act)
				in := uint64(0)
				for _, a := range args {
					in += uint64(len(a))
				}
				l := legs[0]
				limit := uint64(1<<20) + 64*(in+4096)
				if l.AllocBytes > limit {
					alloc.Fail(P, "allocation", "MultiESDTNFTTransfer:"+sideName(l), fmt.Sprintf("MultiESDTNFTTransfer on %s allocated %d bytes for %d input bytes (bound %d)", argsID(l.Func, args), l.AllocBytes, in, limit), "call", map[string]interface{}{"state": "mixed", "action": ToJSON(act)})
				}
				if l.AllocBytes > worst {
					worst, worstID = l.AllocBytes, argsID(l.Func, args)
				}
				alloc.Case(fmt.Sprintf("alloc:%s:<=%dKiB", legShape(l), (l.AllocBytes/1024/16+1)*16))
			}
		}
		world.MeasureAlloc = false
		debug.SetGCPercent(400)
		runtime.GC()
		alloc.Sample(map[string]interface{}{"largest_allocation_bytes": worst, "on": worstID})
	}
	req := []string{"MultiESDTNFTTransfer:sender:ok", "MultiESDTNFTTransfer:dest:ok", "ESDTNFTTransfer:dest:ok", "ESDTTransfer:dest:ok", "ESDTNFTCreate:sender:ok", "ESDTNFTAddURI:sender:err", "ESDTWipe:sys:err", "ESDTPause:sys:ok", "SaveKeyValue:sender:ok"}
	return FinishEnum(P, tier, "exploration", start,
		fmt.Sprintf("(i) all %d argument lists of length 0..3 over a 14-item adversarial pool x 23 functions x %d caller/recipient patterns (sender only, both distinct, same object, destination only via the system contract, to the system contract, contract on itself, system account) x %d call types x GasProvided {0, 2^64-1} x %d pre-states; (ii) from each of %d sender-side base cases of the catalogue every replacement/insertion/deletion of <= %d positions by each of %d items (pool + role names, 33-byte address, valid/truncated/value-less payloads, further addresses); destination-side inputs are never hand-made: every message a successful case emits is delivered, and refunds of refused deliveries too; (iii) allocation measured (TotalAlloc delta, single-threaded, GC off) for every MultiESDTNFTTransfer argument list of length 4..5 (4..6 thorough) over {b0,1,2,2^16,two wrap-around residues,F,0} in three account patterns. A class is distinct by (function, side, result shape)", len(lists), len(patterns), len(callTypes), len(stateNames), len(bases), d, len(full)),
		[]string{"A10 transaction-reachable input: CallValue non-nil, 32-byte caller/recipient, arguments non-nil byte slices of any content; destination-side inputs are exactly what the sender side emits", "allocation bound: 1 MiB + 64 x (input bytes + 4096)"},
		true, map[string]interface{}{"argument_lists": len(lists), "base_cases": len(bases)}, req, append(ws, alloc)...)
}

func init() {
	Replayers["call"] = func(property, sig string, payload []byte) int { return rerunCheck(property, sig) }
}
