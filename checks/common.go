// Package checks holds one decision procedure per property plus the shared plumbing: evidence
// files, known findings, replay artefacts, exit codes.
package checks

import (
	"crypto/sha256"
	"encoding/hex"
	"encoding/json"
	"fmt"
	"math/big"
	"os"
	"path/filepath"
	"sort"
	"strconv"
	"strings"
	"time"

	vmcommon "github.com/ElrondNetwork/elrond-vm-common"

	"verif/engine/explore"
	"verif/engine/uni"
	"verif/engine/world"
)

// Root is the /verif directory (overridable for snapshots).
var Root = func() string {
	if r := os.Getenv("VERIF_ROOT"); r != "" {
		return r
	}
	return "/verif"
}()

// Tier is "quick" or "thorough".
type Tier string

// Thorough reports whether the thorough tier was requested.
func (t Tier) Thorough() bool { return t == "thorough" }

// Seed is VERIF_SEED (recorded; enumeration order is fixed, nothing is random).
func Seed() int {
	n, _ := strconv.Atoi(os.Getenv("VERIF_SEED"))
	return n
}

// ---------------------------------------------------------------------------------------------
// Actions as JSON (hex strings, universe names)

// ActionJSON is the replay-file form of an action.
type ActionJSON struct {
	Kind      string   `json:"kind"`
	Caller    string   `json:"caller,omitempty"`
	Recipient string   `json:"recipient,omitempty"`
	Func      string   `json:"func,omitempty"`
	Args      []string `json:"args,omitempty"`
	Gas       uint64   `json:"gas,omitempty"`
	GasLocked uint64   `json:"gas_locked,omitempty"`
	CallType  int      `json:"call_type,omitempty"`
	Value     string   `json:"value,omitempty"`
	Shard     int      `json:"shard,omitempty"`
	Msg       int      `json:"msg,omitempty"`
	RCAE      bool     `json:"return_call_after_error,omitempty"`
	Text      string   `json:"text"`
}

// ToJSON converts an action.
func ToJSON(a world.Action) ActionJSON {
	j := ActionJSON{Text: DescribeAction(a)}
	switch a.Kind {
	case world.ActCall:
		j.Kind = "call"
		j.Caller = hex.EncodeToString(a.Caller)
		j.Recipient = hex.EncodeToString(a.Recipient)
		j.Func = a.Func
		for _, x := range a.Args {
			j.Args = append(j.Args, hex.EncodeToString(x))
		}
		j.Gas, j.GasLocked, j.CallType, j.Shard = a.Gas, a.GasLocked, int(a.CallType), a.Shard
		j.RCAE = a.ReturnAfterError
		if a.Value != nil {
			j.Value = a.Value.String()
		}
	case world.ActDeliver:
		j.Kind = "deliver"
		j.Msg = a.Msg
	case world.ActDeliverTwice:
		j.Kind = "deliverTwice"
		j.Msg = a.Msg
	}
	return j
}

// FromJSON converts back.
func FromJSON(j ActionJSON) (world.Action, error) {
	var a world.Action
	switch j.Kind {
	case "call":
		a.Kind = world.ActCall
		var err error
		if a.Caller, err = hex.DecodeString(j.Caller); err != nil {
			return a, err
		}
		if a.Recipient, err = hex.DecodeString(j.Recipient); err != nil {
			return a, err
		}
		a.Func = j.Func
		for _, x := range j.Args {
			b, err := hex.DecodeString(x)
			if err != nil {
				return a, err
			}
			a.Args = append(a.Args, b)
		}
		a.Gas, a.GasLocked, a.CallType, a.Shard = j.Gas, j.GasLocked, vmcommon.CallType(j.CallType), j.Shard
		a.ReturnAfterError = j.RCAE
		if j.Value != "" {
			v, ok := new(big.Int).SetString(j.Value, 10)
			if !ok {
				return a, fmt.Errorf("bad value %q", j.Value)
			}
			a.Value = v
		}
	case "deliver":
		a.Kind, a.Msg = world.ActDeliver, j.Msg
	case "deliverTwice":
		a.Kind, a.Msg = world.ActDeliverTwice, j.Msg
	default:
		return a, fmt.Errorf("unknown action kind %q", j.Kind)
	}
	return a, nil
}

func argText(x []byte) string {
	if len(x) == 32 {
		return uni.Name(x)
	}
	printable := len(x) > 0
	for _, c := range x {
		if c < 0x20 || c > 0x7e {
			printable = false
		}
	}
	if printable && len(x) <= 40 {
		return strconv.Quote(string(x))
	}
	if len(x) > 24 {
		return fmt.Sprintf("0x%x..(%dB)", x[:8], len(x))
	}
	return "0x" + hex.EncodeToString(x)
}

// DescribeAction renders an action with universe names.
func DescribeAction(a world.Action) string {
	switch a.Kind {
	case world.ActDeliver:
		return fmt.Sprintf("deliver(#%d)", a.Msg)
	case world.ActDeliverTwice:
		return fmt.Sprintf("deliverTwice(#%d)", a.Msg)
	}
	var as []string
	for _, x := range a.Args {
		as = append(as, argText(x))
	}
	s := fmt.Sprintf("%s->%s %s(%s)", uni.Name(a.Caller), uni.Name(a.Recipient), a.Func, strings.Join(as, ","))
	if a.CallType != 0 {
		s += fmt.Sprintf(" callType=%d", a.CallType)
	}
	if a.ReturnAfterError {
		s += " returnCallAfterError"
	}
	if a.Gas != uni.Gas {
		s += fmt.Sprintf(" gas=%d", a.Gas)
	}
	if uni.Name(a.Recipient) == "sys" {
		s += fmt.Sprintf(" shard=%d", a.Shard)
	}
	return s
}

func init() { explore.Describe = DescribeAction }

// ---------------------------------------------------------------------------------------------
// Known findings

// Finding is one entry of known_findings.json.
type Finding struct {
	Property  string `json:"property"`
	Status    string `json:"status"` // "known" | "fixed"
	Signature string `json:"signature"`
	Commit    string `json:"commit,omitempty"`
	What      string `json:"what"`
}

// LoadFindings reads the committed known-findings file (never written at run time).
func LoadFindings() []Finding {
	var f struct {
		Findings []Finding `json:"findings"`
	}
	b, err := os.ReadFile(filepath.Join(Root, "known_findings.json"))
	if err != nil {
		return nil
	}
	if err := json.Unmarshal(b, &f); err != nil {
		fmt.Fprintf(os.Stderr, "SELF-CHECK known_findings.json unreadable: %v\n", err)
		os.Exit(2)
	}
	return f.Findings
}

// ---------------------------------------------------------------------------------------------
// Generic violation record (used by all engines)

// Viol is a violation in engine-independent form.
type Viol struct {
	Property string      `json:"property"`
	Clause   string      `json:"clause"`
	Sig      string      `json:"signature"`
	Detail   string      `json:"detail"`
	Replay   interface{} `json:"replay"` // engine-specific replay payload
	Kind     string      `json:"kind"`   // replay kind: "history", "case", ...
}

// FullSig is the string matched against known_findings.json.
func (v Viol) FullSig() string { return v.Clause + "/" + v.Sig }

// HistoryReplay is the replay payload of an E1 violation.
type HistoryReplay struct {
	Profile string       `json:"profile"`
	Seed    string       `json:"seed"`
	Actions []ActionJSON `json:"actions"`
}

// FromExplore converts E1 violations.
func FromExplore(vs []*explore.Violation) []Viol {
	var out []Viol
	for _, v := range vs {
		hr := HistoryReplay{Profile: v.Profile, Seed: v.Seed}
		for _, a := range v.History {
			hr.Actions = append(hr.Actions, ToJSON(a))
		}
		out = append(out, Viol{Property: v.Property, Clause: v.Clause, Sig: v.Sig, Detail: v.Detail, Replay: hr, Kind: "history"})
	}
	return out
}

// ---------------------------------------------------------------------------------------------
// Evidence

// Evidence mirrors EVIDENCE.schema.json.
type Evidence struct {
	PropertyID  string                 `json:"property_id"`
	Tier        string                 `json:"tier"`
	Seed        int                    `json:"seed"`
	Level       string                 `json:"level"`
	Coverage    map[string]interface{} `json:"coverage"`
	Assumptions []string               `json:"assumptions"`
	WallS       float64                `json:"wall_s"`
	Violations  int                    `json:"violations"`
}

// Outcome is what a check hands to Finish.
type Outcome struct {
	Property    string
	Tier        Tier
	Level       string
	Coverage    map[string]interface{}
	Assumptions []string
	Violations  []Viol
	SelfCheck   []string // harness self-check failures (exit 2)
	Start       time.Time
	// MergeSection, when set, makes Finish add this outcome as a section of the evidence file an
	// earlier stage of the same check has just written, instead of replacing that file.
	MergeSection string
}

// Finish classifies violations against the known findings, writes replay files and the evidence
// file, prints the protocol lines and returns the exit code.
func Finish(o *Outcome) int {
	if replayWanted != "" {
		for _, v := range o.Violations {
			if v.FullSig() == replayWanted {
				fmt.Printf("  %s\nREPRODUCED property=%s %s (deterministic enumeration re-run)\n", v.Detail, o.Property, replayWanted)
				return 1
			}
		}
		fmt.Printf("NOT REPRODUCED property=%s %s\n", o.Property, replayWanted)
		return 0
	}
	findings := LoadFindings()
	known := map[string]Finding{}
	for _, f := range findings {
		if f.Property == o.Property && f.Status == "known" {
			known[f.Signature] = f
		}
	}
	var fresh []Viol
	seenKnown := map[string]bool{}
	for _, v := range o.Violations {
		if f, ok := known[v.FullSig()]; ok {
			if !seenKnown[f.Signature] {
				seenKnown[f.Signature] = true
				fmt.Printf("KNOWN-FINDING: property=%s %s [%s]\n", o.Property, f.What, f.Signature)
			}
			continue
		}
		fresh = append(fresh, v)
	}
	sort.SliceStable(fresh, func(i, j int) bool { return fresh[i].FullSig() < fresh[j].FullSig() })
	_ = os.MkdirAll(filepath.Join(Root, "replays"), 0o755)
	for i, v := range fresh {
		b, _ := json.MarshalIndent(v, "", " ")
		h := sha256.Sum256([]byte(v.Property + v.FullSig()))
		path := filepath.Join(Root, "replays", fmt.Sprintf("%s-%s.json", o.Property, hex.EncodeToString(h[:6])))
		_ = os.WriteFile(path, b, 0o644)
		if i < 25 {
			fmt.Printf("VIOLATION property=%s replay=%s\n", o.Property, path)
			fmt.Printf("  clause=%s signature=%s\n  %s\n", v.Clause, v.Sig, v.Detail)
		}
	}
	if len(fresh) > 25 {
		fmt.Printf("  ... %d more violations (replay files written)\n", len(fresh)-25)
	}
	ev := Evidence{PropertyID: o.Property, Tier: string(o.Tier), Seed: Seed(), Level: o.Level, Coverage: o.Coverage,
		Assumptions: o.Assumptions, WallS: time.Since(o.Start).Seconds(), Violations: len(fresh)}
	if ev.Coverage == nil {
		ev.Coverage = map[string]interface{}{}
	}
	ev.Coverage["known_findings_met"] = len(seenKnown)
	if o.MergeSection != "" {
		var prev Evidence
		pb, err := os.ReadFile(filepath.Join(Root, "evidence", o.Property+".json"))
		if err != nil || json.Unmarshal(pb, &prev) != nil || prev.Coverage == nil || prev.Tier != string(o.Tier) {
			fmt.Printf("SELF-CHECK property=%s the first stage's evidence file is missing or of another tier\n", o.Property)
			return 2
		}
		prev.Coverage[o.MergeSection] = ev.Coverage
		prev.Assumptions = append(prev.Assumptions, ev.Assumptions...)
		prev.WallS += ev.WallS
		prev.Violations += ev.Violations
		ev = prev
	}
	_ = os.MkdirAll(filepath.Join(Root, "evidence"), 0o755)
	b, _ := json.MarshalIndent(ev, "", " ")
	if err := os.WriteFile(filepath.Join(Root, "evidence", o.Property+".json"), b, 0o644); err != nil {
		fmt.Fprintf(os.Stderr, "SELF-CHECK cannot write evidence: %v\n", err)
		return 2
	}
	if len(o.SelfCheck) > 0 {
		for _, s := range o.SelfCheck {
			fmt.Printf("SELF-CHECK property=%s %s\n", o.Property, s)
		}
		if len(fresh) == 0 {
			return 2
		}
	}
	if len(fresh) > 0 {
		return 1
	}
	fmt.Printf("OK property=%s tier=%s wall=%.1fs\n", o.Property, o.Tier, ev.WallS)
	return 0
}

// Assumptions shared by the ledger checks (DESIGN.md §2).
var LedgerAssumptions = []string{
	"A1 execution sides: sender-side execution on the caller's shard, acntDst only when the recipient is local; system-contract calls and deliveries run with acntSnd=nil",
	"A2 the node rolls back every failed call; a successful call commits",
	"A3 one account object per address per execution; only driver-passed or SaveAccount'ed accounts persist",
	"A4/A5 cross-shard output transfers are delivered exactly once, at any later time, in any order; user transactions continue on the destination shard",
	"A6 a failed delivery of a token transfer is answered by a return-after-error refund message",
	"A8 payability oracle: table per address, users payable by default",
	"A9 production gogo-proto marshaller (Reset+Unmarshal / Marshal)",
}

// MergeClasses sums outcome-class counters.
func MergeClasses(dst, src map[string]int64) {
	for k, v := range src {
		dst[k] += v
	}
}

// SortedClasses renders the outcome classes deterministically.
func SortedClasses(m map[string]int64) map[string]int64 {
	return m // encoding/json sorts map keys
}
