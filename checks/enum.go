package checks

import (
	"fmt"
	"runtime"
	"runtime/debug"
	"sort"
	"sync"
	"time"
)

// Enum collects the coverage of an exhaustive input enumeration (engine E2).
type Enum struct {
	mu       sync.Mutex
	Evals    int64
	Distinct map[string]int64 // distinct observation classes -> count
	Samples  []interface{}
	Viols    []Viol
	violSeen map[string]bool
}

// NewEnum returns an empty collector.
func NewEnum() *Enum { return &Enum{Distinct: map[string]int64{}, violSeen: map[string]bool{}} }

// Case records one evaluated case with its observation class.
func (e *Enum) Case(class string) {
	e.mu.Lock()
	e.Evals++
	e.Distinct[class]++
	e.mu.Unlock()
}

// Sample keeps up to 12 written-out cases.
func (e *Enum) Sample(s interface{}) {
	e.mu.Lock()
	if len(e.Samples) < 12 {
		e.Samples = append(e.Samples, s)
	}
	e.mu.Unlock()
}

// Fail records a violation (first occurrence per signature keeps its replay payload).
func (e *Enum) Fail(property, clause, sig, detail string, kind string, replay interface{}) {
	e.mu.Lock()
	defer e.mu.Unlock()
	k := clause + "/" + sig
	if e.violSeen[k] {
		return
	}
	e.violSeen[k] = true
	e.Viols = append(e.Viols, Viol{Property: property, Clause: clause, Sig: sig, Detail: detail, Kind: kind, Replay: replay})
}

// Merge folds a worker-local collector into e.
func (e *Enum) Merge(o *Enum) {
	e.mu.Lock()
	defer e.mu.Unlock()
	e.Evals += o.Evals
	for k, v := range o.Distinct {
		e.Distinct[k] += v
	}
	for _, s := range o.Samples {
		if len(e.Samples) < 12 {
			e.Samples = append(e.Samples, s)
		}
	}
	for _, v := range o.Viols {
		k := v.Clause + "/" + v.Sig
		if !e.violSeen[k] {
			e.violSeen[k] = true
			e.Viols = append(e.Viols, v)
		}
	}
}

// Parallel runs f(worker, i) for i in [0,n) on all cores; f must only touch its worker-local state.
func Parallel(n int, f func(worker, i int)) {
	w := runtime.NumCPU()
	if w > 16 {
		w = 16
	}
	if n < w {
		w = 1
	}
	var wg sync.WaitGroup
	// a panic in a worker is carried over to the calling goroutine (with the worker's stack), where
	// the checker's crash handler classifies it
	var mu sync.Mutex
	var crashed *WorkerPanic
	chunk := (n + w - 1) / w
	for wi := 0; wi < w; wi++ {
		lo, hi := wi*chunk, (wi+1)*chunk
		if hi > n {
			hi = n
		}
		if lo >= hi {
			continue
		}
		wg.Add(1)
		go func(wi, lo, hi int) {
			defer wg.Done()
			defer func() {
				if r := recover(); r != nil {
					mu.Lock()
					if crashed == nil {
						crashed = &WorkerPanic{Value: r, Stack: string(debug.Stack())}
					}
					mu.Unlock()
				}
			}()
			for i := lo; i < hi; i++ {
				f(wi, i)
			}
		}(wi, lo, hi)
	}
	wg.Wait()
	if crashed != nil {
		panic(crashed)
	}
}

// WorkerPanic is a panic of a Parallel worker, re-raised in the caller.
type WorkerPanic struct {
	Value interface{}
	Stack string
}

func (w *WorkerPanic) Error() string { return fmt.Sprintf("%v", w.Value) }

// NumWorkers is the worker count Parallel uses.
func NumWorkers() int {
	w := runtime.NumCPU()
	if w > 16 {
		w = 16
	}
	return w
}

// FinishEnum assembles an exploration-level outcome from collectors.
func FinishEnum(property string, tier Tier, level string, start time.Time, rule string, assumptions []string, exhaustive bool, extra map[string]interface{}, require []string, es ...*Enum) int {
	return FinishEnumWithSelf(property, tier, level, start, rule, assumptions, exhaustive, extra, require, nil, es...)
}

// FinishEnumWithSelf is FinishEnum with additional harness self-check failures.
func FinishEnumWithSelf(property string, tier Tier, level string, start time.Time, rule string, assumptions []string, exhaustive bool, extra map[string]interface{}, require []string, selfCheck []string, es ...*Enum) int {
	total := NewEnum()
	for _, e := range es {
		total.Merge(e)
	}
	o := &Outcome{Property: property, Tier: tier, Level: level, Start: start, Assumptions: assumptions, Violations: total.Viols, SelfCheck: selfCheck}
	for _, r := range require {
		if total.Distinct[r] == 0 {
			o.SelfCheck = append(o.SelfCheck, "non-vacuity: observation class never seen: "+r)
		}
	}
	classes := make([]string, 0, len(total.Distinct))
	for k := range total.Distinct {
		classes = append(classes, k)
	}
	sort.Strings(classes)
	top := map[string]int64{}
	for i, k := range classes {
		if i < 400 {
			top[k] = total.Distinct[k]
		}
	}
	if len(total.Samples) == 0 {
		total.Samples = append(total.Samples, "none recorded")
	}
	o.Coverage = map[string]interface{}{
		"evaluations":         total.Evals,
		"distinct_nontrivial": len(total.Distinct),
		"rule":                rule,
		"samples":             total.Samples,
		"exhaustive":          exhaustive,
		"observation_classes": top,
	}
	for k, v := range extra {
		o.Coverage[k] = v
	}
	if len(total.Distinct) < 2 {
		o.SelfCheck = append(o.SelfCheck, fmt.Sprintf("vacuous enumeration: %d distinct observation classes", len(total.Distinct)))
	}
	return Finish(o)
}
