package checks

import (
	"fmt"
	"reflect"
	"strings"
	"time"

	vmcommon "github.com/ElrondNetwork/elrond-vm-common"

	"verif/engine/spec"
	"verif/engine/uni"
	"verif/engine/world"
)

// priced is one sender-side success class with its closed-form charge.
type priced struct {
	name  string
	act   world.Action
	field string // the function's own BuiltInCost field
	// extra returns the per-byte part of the charge under schedule s for the executed leg
	extra func(s world.Schedule, leg *world.Leg) uint64
	times uint64 // multiplier of the own cost (number of tokens for a multi-transfer); 0 = 1
}

func base(s world.Schedule, f string) uint64    { return s[vmcommon.BaseOperationCostString][f] }
func builtin(s world.Schedule, f string) uint64 { return s[vmcommon.BuiltInCostString][f] }

func sumLen(args [][]byte) uint64 {
	n := uint64(0)
	for _, a := range args {
		n += uint64(len(a))
	}
	return n
}

// payloadBytes sums the lengths of the NFT payloads in the cross-shard message the leg emitted.
func payloadBytes(leg *world.Leg) uint64 {
	n := uint64(0)
	for _, m := range leg.Emitted {
		fn, args, ok := spec.SplitData(m.Data)
		if !ok || fn != leg.Func {
			continue
		}
		if t, ok := spec.ParseTransfer(fn, m.From, m.To, args, false); ok {
			for _, it := range t.Items {
				n += uint64(len(it.Payload))
			}
		}
	}
	return n
}

func pricedClasses() []priced {
	A0, B0, C1, S0 := uni.A0, uni.B0, uni.C1, uni.S0
	none := func(world.Schedule, *world.Leg) uint64 { return 0 }
	store := func(n func(leg *world.Leg) uint64) func(world.Schedule, *world.Leg) uint64 {
		return func(s world.Schedule, leg *world.Leg) uint64 { return base(s, "StorePerByte") * n(leg) }
	}
	copyBytes := func(s world.Schedule, leg *world.Leg) uint64 { return base(s, "DataCopyPerByte") * payloadBytes(leg) }
	kv := func(s world.Schedule, leg *world.Leg) uint64 {
		args := leg.Input.Arguments
		acc := leg.Pre.Get(leg.Input.CallerAddr)
		total := uint64(0)
		for i := 0; i+1 < len(args); i += 2 {
			k, v := args[i], args[i+1]
			total += base(s, "PersistPerByte") * uint64(len(k)+len(v))
			var old []byte
			if acc != nil {
				old = acc.Storage[string(k)]
			}
			if string(old) == string(v) {
				continue
			}
			if len(v) > len(old) {
				total += base(s, "StorePerByte") * uint64(len(v)-len(old))
			}
		}
		return total
	}
	call := uni.Call
	var out []priced
	add := func(name, field string, act world.Action, extra func(world.Schedule, *world.Leg) uint64, times uint64) {
		out = append(out, priced{name: name, act: act, field: field, extra: extra, times: times})
	}
	add("ChangeOwnerAddress", "ChangeOwnerAddress", call(A0, S0, vmcommon.BuiltInFunctionChangeOwnerAddress, B0), none, 1)
	add("ChangeOwnerAddress/to-the-current-owner", "ChangeOwnerAddress", call(A0, S0, vmcommon.BuiltInFunctionChangeOwnerAddress, A0), none, 1)
	add("ClaimDeveloperRewards", "ClaimDeveloperRewards", call(A0, S0, vmcommon.BuiltInFunctionClaimDeveloperRewards), none, 1)
	add("SetUserName", "SaveUserName", call(uni.D0, B0, vmcommon.BuiltInFunctionSetUserName, []byte("name")), none, 1)
	add("SaveKeyValue/new", "SaveKeyValue", call(A0, A0, vmcommon.BuiltInFunctionSaveKeyValue, []byte("new"), []byte("value")), kv, 1)
	add("SaveKeyValue/+1-byte", "SaveKeyValue", call(A0, A0, vmcommon.BuiltInFunctionSaveKeyValue, []byte("new"), []byte("value+")), kv, 1)
	add("SaveKeyValue/unchanged-growing-shrinking", "SaveKeyValue", call(A0, A0, vmcommon.BuiltInFunctionSaveKeyValue, []byte("k1"), []byte("vv"), []byte("k3"), []byte("vvvvv"), []byte("k2"), []byte("v")), kv, 1)
	add("ESDTTransfer/same-shard", "ESDTTransfer", uni.ESDTTransfer(A0, B0, uni.F, 1), none, 1)
	add("ESDTTransfer/cross-shard", "ESDTTransfer", uni.ESDTTransfer(A0, C1, uni.F, 1), none, 1)
	add("ESDTTransfer/contract-cross-shard", "ESDTTransfer", uni.ESDTTransfer(S0, C1, uni.F, 1), none, 1)
	add("ESDTTransfer/to-contract-with-call", "ESDTTransfer", uni.ESDTTransfer(A0, S0, uni.F, 1, []byte("f")), none, 1)
	add("ESDTBurn", "ESDTBurn", call(A0, uni.ESDT, vmcommon.BuiltInFunctionESDTBurn, uni.F, uni.Big(1)), none, 1)
	add("ESDTBurn/contract", "ESDTBurn", call(S0, uni.ESDT, vmcommon.BuiltInFunctionESDTBurn, uni.F, uni.Big(1)), none, 1)
	add("ESDTLocalMint", "ESDTLocalMint", call(A0, A0, vmcommon.BuiltInFunctionESDTLocalMint, uni.F, uni.Big(2)), none, 1)
	add("ESDTLocalBurn", "ESDTLocalBurn", call(A0, A0, vmcommon.BuiltInFunctionESDTLocalBurn, uni.F, uni.Big(1)), none, 1)
	allArgs := store(func(leg *world.Leg) uint64 { return sumLen(leg.Input.Arguments) })
	add("ESDTNFTCreate/min", "ESDTNFTCreate", uni.Create(A0, uni.S, 1), allArgs, 1)
	add("ESDTNFTCreate/+1-byte", "ESDTNFTCreate", call(A0, A0, vmcommon.BuiltInFunctionESDTNFTCreate, uni.S, uni.Big(1), []byte("nn"), uni.Big(100), []byte("h"), []byte("a"), []byte("u")), allArgs, 1)
	add("ESDTNFTCreate/+17-bytes-2-uris", "ESDTNFTCreate", call(A0, A0, vmcommon.BuiltInFunctionESDTNFTCreate, uni.S, uni.Big(2), []byte("n"), uni.Big(100), []byte("h"), make([]byte, 18), []byte("u"), []byte("uri2")), allArgs, 1)
	add("ESDTNFTAddQuantity", "ESDTNFTAddQuantity", call(A0, A0, vmcommon.BuiltInFunctionESDTNFTAddQuantity, uni.S, uni.Big(1), uni.Big(2)), none, 1)
	add("ESDTNFTBurn", "ESDTNFTBurn", call(A0, A0, vmcommon.BuiltInFunctionESDTNFTBurn, uni.S, uni.Big(1), uni.Big(1)), none, 1)
	uris := store(func(leg *world.Leg) uint64 { return sumLen(leg.Input.Arguments[2:]) })
	add("ESDTNFTAddURI/one", "ESDTNFTAddURI", call(A0, A0, vmcommon.BuiltInFunctionESDTNFTAddURI, uni.S, uni.Big(1), []byte("uri")), uris, 1)
	add("ESDTNFTAddURI/two", "ESDTNFTAddURI", call(A0, A0, vmcommon.BuiltInFunctionESDTNFTAddURI, uni.S, uni.Big(1), []byte("uri"), make([]byte, 17)), uris, 1)
	attrs := store(func(leg *world.Leg) uint64 { return uint64(len(leg.Input.Arguments[2])) })
	add("ESDTNFTUpdateAttributes/empty", "ESDTNFTUpdateAttributes", call(A0, A0, vmcommon.BuiltInFunctionESDTNFTUpdateAttributes, uni.S, uni.Big(1), []byte{}), attrs, 1)
	add("ESDTNFTUpdateAttributes/17", "ESDTNFTUpdateAttributes", call(A0, A0, vmcommon.BuiltInFunctionESDTNFTUpdateAttributes, uni.S, uni.Big(1), make([]byte, 17)), attrs, 1)
	// the attributes the holding already has (created with "a"): stored bytes are priced on every call
	add("ESDTNFTUpdateAttributes/same-as-stored", "ESDTNFTUpdateAttributes", call(A0, A0, vmcommon.BuiltInFunctionESDTNFTUpdateAttributes, uni.S, uni.Big(1), []byte("a")), attrs, 1)
	add("ESDTNFTAddURI/same-as-stored", "ESDTNFTAddURI", call(A0, A0, vmcommon.BuiltInFunctionESDTNFTAddURI, uni.S, uni.Big(1), []byte("u")), uris, 1)
	add("ESDTNFTTransfer/cross-shard", "ESDTNFTTransfer", uni.NFTTransfer(A0, C1, uni.S, 1, 1), copyBytes, 1)
	add("ESDTNFTTransfer/cross-shard-with-call", "ESDTNFTTransfer", uni.NFTTransfer(A0, uni.S1c, uni.S, 1, 2, []byte("f")), copyBytes, 1)
	add("MultiESDTNFTTransfer/same-shard-1-fungible", "ESDTNFTMultiTransfer", uni.Multi(A0, B0, []uni.Ent{{Tok: uni.F, Nonce: 0, Q: 1}}), none, 1)
	add("MultiESDTNFTTransfer/same-shard-2-fungible", "ESDTNFTMultiTransfer", uni.Multi(A0, B0, []uni.Ent{{Tok: uni.F, Nonce: 0, Q: 1}, {Tok: uni.F1, Nonce: 0, Q: 1}}), none, 2)
	add("MultiESDTNFTTransfer/cross-shard-1-nft", "ESDTNFTMultiTransfer", uni.Multi(A0, C1, []uni.Ent{{Tok: uni.S, Nonce: 1, Q: 1}}), copyBytes, 1)
	add("MultiESDTNFTTransfer/cross-shard-2-mixed", "ESDTNFTMultiTransfer", uni.Multi(A0, C1, []uni.Ent{{Tok: uni.S, Nonce: 1, Q: 1}, {Tok: uni.F, Nonce: 0, Q: 1}}), copyBytes, 2)
	add("MultiESDTNFTTransfer/cross-shard-3-two-nfts-with-call", "ESDTNFTMultiTransfer", uni.Multi(A0, uni.S1c, []uni.Ent{{Tok: uni.S, Nonce: 1, Q: 1}, {Tok: uni.F, Nonce: 0, Q: 1}, {Tok: uni.S, Nonce: 2, Q: 1}}, []byte("f")), copyBytes, 3)
	// attached calls with several arguments (the number of tokens, not of arguments, is charged)
	x, y := []byte("x"), []byte("yy")
	add("ESDTTransfer/to-contract-call-3-args", "ESDTTransfer", uni.ESDTTransfer(A0, S0, uni.F, 1, []byte("f"), x, y, x), none, 1)
	add("ESDTNFTTransfer/cross-shard-call-2-args", "ESDTNFTTransfer", uni.NFTTransfer(A0, uni.S1c, uni.S, 1, 1, []byte("f"), x, y), copyBytes, 1)
	add("MultiESDTNFTTransfer/same-shard-contract-call-2-args", "ESDTNFTMultiTransfer", uni.Multi(A0, S0, []uni.Ent{{Tok: uni.F, Nonce: 0, Q: 1}}, []byte("f"), x, y), none, 1)
	add("MultiESDTNFTTransfer/cross-shard-2-mixed-call-2-args", "ESDTNFTMultiTransfer", uni.Multi(A0, uni.S1c, []uni.Ent{{Tok: uni.S, Nonce: 1, Q: 1}, {Tok: uni.F, Nonce: 0, Q: 1}}, []byte("f"), x, y), copyBytes, 2)
	add("MultiESDTNFTTransfer/cross-shard-1-fungible-call-5-args", "ESDTNFTMultiTransfer", uni.Multi(A0, uni.S1c, []uni.Ent{{Tok: uni.F, Nonce: 0, Q: 1}}, []byte("f"), x, y, x, y, x), none, 1)
	add("MultiESDTNFTTransfer/cross-shard-4-fungible", "ESDTNFTMultiTransfer", uni.Multi(A0, C1, []uni.Ent{{Tok: uni.F, Nonce: 0, Q: 1}, {Tok: uni.F1, Nonce: 0, Q: 1}, {Tok: uni.F, Nonce: 0, Q: 1}, {Tok: uni.F1, Nonce: 0, Q: 1}}), none, 4)
	return out
}

// scheduleValid mirrors the documented acceptance rule: both sections present, every field present
// and non-zero.
func scheduleValid(s world.Schedule) bool {
	if s == nil {
		return false
	}
	bi, ok1 := s[vmcommon.BuiltInCostString]
	bo, ok2 := s[vmcommon.BaseOperationCostString]
	if !ok1 || !ok2 || bi == nil || bo == nil {
		return false
	}
	for _, f := range world.BuiltInFields {
		if bi[f] == 0 {
			return false
		}
	}
	for _, f := range world.BaseFields {
		if bo[f] == 0 {
			return false
		}
	}
	return true
}

type namedSchedule struct {
	name string
	s    world.Schedule
}

func scheduleAlphabet() []namedSchedule {
	out := []namedSchedule{{"S1", world.PrimeSchedule(0)}, {"S2", world.PrimeSchedule(1)}, {"S3", world.PrimeSchedule(2)}}
	// accepted schedules that differ from another one in a single section only
	mix := func(name string, bi, bo int) namedSchedule {
		m := world.PrimeSchedule(bi).Clone()
		m[vmcommon.BaseOperationCostString] = world.PrimeSchedule(bo).Clone()[vmcommon.BaseOperationCostString]
		return namedSchedule{name, m}
	}
	out = append(out, mix("S1+base(S2)", 0, 1), mix("S2+base(S3)", 1, 2), mix("S3+base(S1)", 2, 0))
	s2 := world.PrimeSchedule(1)
	for _, f := range world.BuiltInFields {
		z := s2.Clone()
		z[vmcommon.BuiltInCostString][f] = 0
		out = append(out, namedSchedule{"S2[" + f + "=0]", z})
		m := s2.Clone()
		delete(m[vmcommon.BuiltInCostString], f)
		out = append(out, namedSchedule{"S2[-" + f + "]", m})
	}
	for _, f := range world.BaseFields {
		z := s2.Clone()
		z[vmcommon.BaseOperationCostString][f] = 0
		out = append(out, namedSchedule{"S2[" + f + "=0]", z})
		m := s2.Clone()
		delete(m[vmcommon.BaseOperationCostString], f)
		out = append(out, namedSchedule{"S2[-" + f + "]", m})
	}
	// flat schedules (every field the same value) and single-field deviations from them: a setter
	// that compares old and new prices, or the wrong pair of fields, is blind to all-distinct values
	flat := world.MakeSchedule(func(int) uint64 { return 7 })
	out = append(out, namedSchedule{"flat7", flat})
	for _, f := range world.BuiltInFields {
		d := flat.Clone()
		d[vmcommon.BuiltInCostString][f] = 9
		out = append(out, namedSchedule{"flat7[" + f + "=9]", d})
	}
	for _, f := range world.BaseFields {
		d := flat.Clone()
		d[vmcommon.BaseOperationCostString][f] = 9
		out = append(out, namedSchedule{"flat7[" + f + "=9]", d})
	}
	// accepted schedules that carry entries this library does not know (a schedule file newer than
	// the library): every known field is present and non-zero, so they are in force
	{
		x := world.PrimeSchedule(2).Clone()
		x[vmcommon.BaseOperationCostString]["GetCode"] = 1000
		x[vmcommon.BaseOperationCostString]["FutureOpcode"] = 7
		out = append(out, namedSchedule{"S3+unknown-base-entries", x})
		y := world.PrimeSchedule(1).Clone()
		y[vmcommon.BuiltInCostString]["ESDTNFTFutureFunction"] = 12345
		out = append(out, namedSchedule{"S2+unknown-builtin-entry", y})
		z := world.PrimeSchedule(0).Clone()
		z["ElrondAPICost"] = map[string]uint64{"GetSCAddress": 100}
		out = append(out, namedSchedule{"S1+unknown-section", z})
	}
	noBI := s2.Clone()
	delete(noBI, vmcommon.BuiltInCostString)
	noBO := s2.Clone()
	delete(noBO, vmcommon.BaseOperationCostString)
	nilBI := s2.Clone()
	nilBI[vmcommon.BuiltInCostString] = nil
	out = append(out, namedSchedule{"S2[-BuiltInCost]", noBI}, namedSchedule{"S2[-BaseOperationCost]", noBO}, namedSchedule{"S2[BuiltInCost=nil]", nilBI}, namedSchedule{"nil", nil})
	return out
}

// C16 decides "every function is priced by its own entry of the current gas schedule".
func C16(tier Tier) int {
	start := time.Now()
	const P = "C16"
	alphabet := scheduleAlphabet()
	classes := pricedClasses()
	// the forwarding classes again with locked gas (an input field the price does not depend on)
	for _, pc := range pricedClasses() {
		if strings.Contains(pc.name, "call") || strings.Contains(pc.name, "cross-shard") || strings.HasPrefix(pc.name, "ESDTBurn") || pc.name == "SetUserName" {
			l := pc
			l.name += "[gasLocked=700]"
			l.act.GasLocked = 700
			classes = append(classes, l)
		}
	}
	maxLen := 2
	if tier.Thorough() {
		maxLen = 3
	}
	// all sequences of <= maxLen changes
	var seqs [][]int
	var gen func(cur []int)
	gen = func(cur []int) {
		seqs = append(seqs, cur)
		if len(cur) == maxLen {
			return
		}
		for i := range alphabet {
			gen(append(append([]int{}, cur...), i))
		}
	}
	gen(nil)
	ws := make([]*Enum, NumWorkers())
	envs := make([]*world.Env, NumWorkers())
	for i := range ws {
		ws[i] = NewEnum()
	}
	const gas = uint64(1_000_000_000)
	var baseWorld *world.World
	{
		env, err := world.NewEnv(ledgerEnv(2))
		if err != nil {
			panic(err)
		}
		baseWorld = catalogueBase(env)
	}
	states := map[string]bool{}
	var transitions int64
	type stat struct{ inForce map[string]bool }
	perWorker := make([]map[string]bool, NumWorkers())
	for i := range perWorker {
		perWorker[i] = map[string]bool{}
	}
	Parallel(len(seqs), func(wk, si int) {
		e := ws[wk]
		seq := seqs[si]
		// variant 0: every function active from the start; variant 1: the epoch-gated functions are
		// still inactive (activation epoch 1, epoch 0 confirmed) while the schedule changes arrive
		// and are activated afterwards - the prices in force must be the same
		// variant 2: the factory receives every change before it creates the function container;
		// variant 3: it receives the first change before and the others after
		// variant 4: after the changes, instances built by another factory (constructor prices) are
		// put into the container with Replace and the schedule in force is delivered once more -
		// every registered function, replaced ones included, is priced by it
		// variant 5: the schedule in force is delivered to every function object directly
		// (SetNewGasConfig), and the struct it was delivered in is overwritten by its owner afterwards
		for variant := 0; variant < 6; variant++ {
			cfg := ledgerEnv(2)
			cfg.Schedule = world.PrimeSchedule(0) // construction schedule S1
			if variant >= 1 && len(seq) == 0 {
				continue
			}
			if variant == 3 && len(seq) < 2 {
				continue
			}
			before := 0
			switch variant {
			case 1:
				cfg.ActivationEpoch = 1
			case 2:
				before = len(seq)
			case 3:
				before = 1
			}
			for _, idx := range seq[:before] {
				cfg.ChangesBeforeCreation = append(cfg.ChangesBeforeCreation, alphabet[idx].s)
			}
			var env *world.Env
			var err error
			if pv := guard(func() { env, err = world.NewEnv(cfg) }); pv != nil || err != nil {
				e.Fail(P, "pricing", "container-creation-fails", fmt.Sprintf("after the schedule changes %v delivered before CreateBuiltInFunctionContainer the factory cannot build its container: %v %v", seq[:before], pv, err), "case", fmt.Sprintf("create:%v", seq[:before]))
				continue
			}
			envs[wk] = env
			inForce := world.PrimeSchedule(0)
			inForceName := "S1(construction)"
			label := ""
			switch variant {
			case 1:
				label = "(inactive until after the changes) "
			case 2:
				label = "(all changes arrive before the container is created) "
			case 3:
				label = "(the first change arrives before the container is created) "
			}
			for i, idx := range seq {
				ns := alphabet[idx]
				if i >= before {
					env.ChangeSchedule(ns.s)
				}
				label += ns.name + ";"
				if scheduleValid(ns.s) {
					inForce, inForceName = ns.s, ns.name
				}
			}
			if variant == 1 {
				env.ConfirmEpoch(1)
			}
			if variant == 5 {
				if len(seq) != 1 || !scheduleValid(alphabet[seq[0]].s) {
					continue
				}
				gc := toGasCost(inForce)
				for _, se := range env.Shards {
					for name := range se.Container.Keys() {
						if f, gerr := se.Container.Get(name); gerr == nil {
							f.SetNewGasConfig(gc)
						}
					}
				}
				*gc = *toGasCost(world.MakeSchedule(func(i int) uint64 { return 900001 + uint64(i) }))
				label = "(delivered directly, the delivered struct overwritten afterwards) " + label
			}
			if variant == 4 {
				if inForceName == "S1(construction)" {
					continue
				}
				donorCfg := ledgerEnv(2)
				donorCfg.Schedule = world.PrimeSchedule(0)
				donor, derr := world.NewEnv(donorCfg)
				if derr != nil {
					// a second factory refused a schedule the first one accepted (construction depends
					// on what was decoded before): the schedule is accepted, so this is a pricing defect
					e.Fail(P, "pricing", "second-factory-refuses-accepted-schedule", fmt.Sprintf("after the schedule changes [%s] a factory built with the construction schedule (all entries non-zero) is refused: %v", label, derr), "case", label)
					continue
				}
				for si, se := range env.Shards {
					for _, name := range []string{vmcommon.BuiltInFunctionChangeOwnerAddress, vmcommon.BuiltInFunctionClaimDeveloperRewards} {
						if f, gerr := donor.Shards[si].Container.Get(name); gerr == nil {
							_ = se.Container.Replace(name, f)
						}
					}
				}
				env.ChangeSchedule(inForce)
				label = "(two functions replaced by fresh instances, then the schedule in force delivered again) " + label
			}
			perWorker[wk][inForceName] = true
			for _, pc := range classes {
				if variant == 4 && pc.field != "ChangeOwnerAddress" && pc.field != "ClaimDeveloperRewards" {
					continue
				}
				act := pc.act
				act.Gas = gas
				_, legs := env.Step(baseWorld, act)
				l := legs[0]
				if !l.OK() {
					e.Fail(P, "pricing", pc.name+":class-failed", fmt.Sprintf("after [%s] the class %s no longer succeeds: %v %v", label, pc.name, l.Err, l.Panic), "case", label+pc.name)
					continue
				}
				forwarded := uint64(0)
				for _, m := range l.Outs {
					forwarded += m.GasLimit
				}
				consumed := gas - l.Out.GasRemaining - forwarded
				times := pc.times
				if times == 0 {
					times = 1
				}
				want := times*builtin(inForce, pc.field) + pc.extra(inForce, l)
				if consumed != want {
					// which schedule/field would explain the charge?
					hint := ""
					for _, ns := range alphabet[:6] {
						for _, f := range world.BuiltInFields {
							if times*builtin(ns.s, f)+pc.extra(ns.s, l) == consumed {
								hint = fmt.Sprintf(" (it equals the charge under %s with field %s)", ns.name, f)
							}
						}
					}
					e.Fail(P, "pricing", pc.name+":charge", fmt.Sprintf("after the schedule changes [%s] (in force: %s) %s consumed %d gas, its own entry %s and per-byte components give %d%s", label, inForceName, pc.name, consumed, pc.field, want, hint), "case", label+pc.name)
				}
				e.Case(fmt.Sprintf("charge:%s:%s:v%d", pc.name, inForceName, variant))
			}
		}
	})
	for _, m := range perWorker {
		for k := range m {
			states[k] = true
		}
	}
	for _, s := range seqs {
		transitions += int64(len(s))
	}
	total := NewEnum()
	for _, e := range ws {
		total.Merge(e)
	}
	var rejected int
	for _, ns := range alphabet {
		if !scheduleValid(ns.s) {
			rejected++
		}
	}
	o := &Outcome{Property: P, Tier: tier, Level: "model_checking", Start: start, Violations: total.Viols,
		Assumptions: []string{"the schedule in force is the last change whose two sections carry all 22 fields non-zero (the construction schedule if none)",
			"same-shard NFT transfers are not priced here (the statement speaks of cross-shard payloads only)",
			"payload sizes are taken from the message actually emitted, not from a re-encoding"}}
	if len(states) < 3 {
		o.SelfCheck = append(o.SelfCheck, "fewer than 3 schedules ever in force")
	}
	o.Coverage = map[string]interface{}{
		"states":                        len(states) * 1,
		"transitions":                   transitions,
		"traces_validated_against_impl": int64(len(seqs)),
		"sequences":                     len(seqs),
		"alphabet":                      len(alphabet),
		"rejected_schedules":            rejected,
		"priced_classes":                len(classes),
		"executions":                    total.Evals,
		"distinct_outcome_classes":      len(total.Distinct),
		"exhaustive":                    true,
		"samples": []interface{}{
			map[string]interface{}{"sequence": []string{"S2", "S2[ESDTBurn=0]"}, "in_force": "S2", "then": "each of the 15 priced functions executed in all its sender-side classes, charge compared with the closed form"},
			map[string]interface{}{"class": "MultiESDTNFTTransfer/cross-shard-2-mixed", "closed_form": "2*ESDTNFTMultiTransfer + DataCopyPerByte*|payload of (S,1)|"},
		},
		"explanation": fmt.Sprintf("all sequences of <= %d schedule changes over an alphabet of %d accepted schedules (three with pairwise distinct primes, three that differ from those in one section only, a flat schedule and its 22 single-field deviations, three that carry unknown entries) and %d rejected ones, applied through the real factory.GasScheduleChange in six variants (plain; functions inactive until after the changes; all / the first change before the container is created; two functions replaced by instances of another factory and the schedule in force delivered again; direct delivery in a struct that is overwritten afterwards); the model state is the schedule in force; after every sequence each of the %d priced classes is executed on the real code and its charge compared with the closed form under the schedule in force", maxLen, len(alphabet)-rejected, rejected, len(classes)),
	}
	return Finish(o)
}

// toGasCost fills the library's gas-cost struct from a schedule (field names are the map keys).
func toGasCost(s world.Schedule) *vmcommon.GasCost {
	gc := &vmcommon.GasCost{}
	bi := reflect.ValueOf(&gc.BuiltInCost).Elem()
	for k, v := range s[vmcommon.BuiltInCostString] {
		if f := bi.FieldByName(k); f.IsValid() && f.CanSet() {
			f.SetUint(v)
		}
	}
	bo := reflect.ValueOf(&gc.BaseOperationCost).Elem()
	for k, v := range s[vmcommon.BaseOperationCostString] {
		if f := bo.FieldByName(k); f.IsValid() && f.CanSet() {
			f.SetUint(v)
		}
	}
	return gc
}
