package checks

import (
	"bytes"
	"fmt"
	"math/big"
	"reflect"
	"time"

	vmcommon "github.com/ElrondNetwork/elrond-vm-common"
	"github.com/ElrondNetwork/elrond-vm-common/builtInFunctions"
)

// ---------------------------------------------------------------------------------------------
// reference classifiers (written from the documentation of address.go, independently)

func allEq(b []byte, v byte) bool {
	for _, x := range b {
		if x != v {
			return false
		}
	}
	return true
}

func refIsSystemAccount(a []byte) bool { return len(a) >= 30 && allEq(a[:30], 0xff) }
func refIsSC(a []byte) bool            { return len(a) > 10 && allEq(a[:8], 0) }
func refIsEmpty(a []byte) bool         { return allEq(a, 0) }
func refIsMetaID(id []byte) bool       { return len(id) > 0 && allEq(id, 0xff) }
func refIsSCOnMeta(id, a []byte) bool {
	return len(a) > 25 && refIsMetaID(id) && refIsSC(a) && allEq(a[10:25], 0)
}
func refAllowedKey(k []byte) bool { return !(len(k) >= 6 && string(k[:6]) == "ELROND") }

func guard(f func()) (panicked interface{}) {
	defer func() { panicked = recover() }()
	f()
	return nil
}

// ---------------------------------------------------------------------------------------------
// reference merge

type refAcc struct {
	Address      []byte
	Nonce        uint64
	Balance      *big.Int
	Delta        *big.Int
	Storage      map[string][2][]byte
	Code         []byte
	CodeMetadata []byte
	Deployer     []byte
	Transfers    []string
	GasUsed      uint64
	// Spare renders the transfer slots between len and cap of the account's transfer list: a later
	// merge that appends into a shared backing array writes there
	Spare []string
}

func snapshotAcc(o *vmcommon.OutputAccount) refAcc {
	r := refAcc{Address: append([]byte(nil), o.Address...), Nonce: o.Nonce, Code: append([]byte(nil), o.Code...),
		CodeMetadata: append([]byte(nil), o.CodeMetadata...), GasUsed: o.GasUsed}
	if o.CodeDeployerAddress != nil {
		r.Deployer = append([]byte{}, o.CodeDeployerAddress...)
	}
	if o.Balance != nil {
		r.Balance = new(big.Int).Set(o.Balance)
	}
	if o.BalanceDelta != nil {
		r.Delta = new(big.Int).Set(o.BalanceDelta)
	}
	if o.StorageUpdates != nil {
		r.Storage = map[string][2][]byte{}
		for k, u := range o.StorageUpdates {
			if u == nil {
				r.Storage[k] = [2][]byte{nil, nil}
				continue
			}
			r.Storage[k] = [2][]byte{append([]byte(nil), u.Offset...), append([]byte(nil), u.Data...)}
		}
	}
	for _, t := range o.OutputTransfers {
		v := "nil"
		if t.Value != nil {
			v = t.Value.String()
		}
		r.Transfers = append(r.Transfers, fmt.Sprintf("%s|%d|%d|%x|%d|%x", v, t.GasLimit, t.GasLocked, t.Data, t.CallType, t.SenderAddress))
	}
	if n, c := len(o.OutputTransfers), cap(o.OutputTransfers); c > n {
		for _, t := range o.OutputTransfers[n:c] {
			v := "nil"
			if t.Value != nil {
				v = t.Value.String()
			}
			r.Spare = append(r.Spare, fmt.Sprintf("%s|%d|%d|%x|%d|%x", v, t.GasLimit, t.GasLocked, t.Data, t.CallType, t.SenderAddress))
		}
	}
	return r
}

func bigEq(a, b *big.Int) bool {
	if a == nil || b == nil {
		return a == nil && b == nil
	}
	return a.Cmp(b) == 0
}

// statedEq compares only what the statement defines for the merge result: balance delta, nonce,
// storage updates, output transfers.
func statedEq(a, b refAcc) string {
	switch {
	case a.Nonce != b.Nonce:
		return "nonce"
	case !bigEq(a.Delta, b.Delta):
		return "balanceDelta"
	case !reflect.DeepEqual(a.Transfers, b.Transfers) && !(len(a.Transfers) == 0 && len(b.Transfers) == 0):
		return "transfers"
	}
	if len(a.Storage) != len(b.Storage) {
		return "storage"
	}
	for k, v := range a.Storage {
		w, ok := b.Storage[k]
		if !ok || !bytes.Equal(v[0], w[0]) || !bytes.Equal(v[1], w[1]) {
			return "storage"
		}
	}
	return ""
}

func refEq(a, b refAcc, strictNil bool) string {
	switch {
	case !bytes.Equal(a.Address, b.Address):
		return "address"
	case a.Nonce != b.Nonce:
		return "nonce"
	case !bigEq(a.Balance, b.Balance):
		return "balance"
	case !bigEq(a.Delta, b.Delta):
		return "balanceDelta"
	case !bytes.Equal(a.Code, b.Code):
		return "code"
	case !bytes.Equal(a.CodeMetadata, b.CodeMetadata):
		return "codeMetadata"
	case !bytes.Equal(a.Deployer, b.Deployer) || (strictNil && (a.Deployer == nil) != (b.Deployer == nil)):
		return "deployer"
	case a.GasUsed != b.GasUsed:
		return "gasUsed"
	case !reflect.DeepEqual(a.Transfers, b.Transfers) && !(len(a.Transfers) == 0 && len(b.Transfers) == 0):
		return "transfers"
	case strictNil && !reflect.DeepEqual(a.Spare, b.Spare):
		return "transfers(spare capacity of the merged-in list written)"
	}
	if len(a.Storage) != len(b.Storage) || (strictNil && (a.Storage == nil) != (b.Storage == nil)) {
		return "storage"
	}
	for k, v := range a.Storage {
		w, ok := b.Storage[k]
		if !ok || !bytes.Equal(v[0], w[0]) || !bytes.Equal(v[1], w[1]) {
			return "storage"
		}
	}
	return ""
}

// refMerge is the documented merge: deltas add, highest nonce, later storage updates win, only the
// new transfers are appended, later non-empty scalar fields win.
func refMerge(l, r refAcc) refAcc {
	out := l
	if len(r.Address) != 0 {
		out.Address = r.Address
	}
	st := map[string][2][]byte{}
	for k, v := range l.Storage {
		st[k] = v
	}
	for k, v := range r.Storage {
		st[k] = v
	}
	out.Storage = st
	if r.Balance != nil {
		out.Balance = r.Balance
	}
	d := new(big.Int)
	if l.Delta != nil {
		d.Add(d, l.Delta)
	}
	if r.Delta != nil {
		d.Add(d, r.Delta)
	}
	out.Delta = d
	if len(r.Code) > 0 {
		out.Code = r.Code
	}
	if len(r.CodeMetadata) > 0 {
		out.CodeMetadata = r.CodeMetadata
	}
	if r.Nonce > l.Nonce {
		out.Nonce = r.Nonce
	}
	if len(r.Transfers) > len(l.Transfers) {
		out.Transfers = append(append([]string{}, l.Transfers...), r.Transfers[len(l.Transfers):]...)
	}
	out.GasUsed = r.GasUsed
	if r.Deployer != nil {
		out.Deployer = r.Deployer
	}
	return out
}

type accSpec struct {
	addr, nonce, bal, delta, storage, code, transfers, gas int
}

func buildAcc(s accSpec) *vmcommon.OutputAccount {
	o := &vmcommon.OutputAccount{}
	if s.addr == 1 {
		o.Address = []byte("A")
	}
	o.Nonce = uint64(s.nonce)
	if s.bal == 1 {
		o.Balance = big.NewInt(5)
	}
	if s.bal == 2 {
		o.Balance = big.NewInt(1000)
	}
	switch s.delta {
	case 1:
		o.BalanceDelta = big.NewInt(-3)
	case 2:
		o.BalanceDelta = big.NewInt(0)
	case 3:
		o.BalanceDelta = big.NewInt(7)
	}
	switch s.storage {
	case 1:
		o.StorageUpdates = map[string]*vmcommon.StorageUpdate{}
	case 2:
		o.StorageUpdates = map[string]*vmcommon.StorageUpdate{"k": {Offset: []byte("k"), Data: []byte{1}}}
	case 3:
		o.StorageUpdates = map[string]*vmcommon.StorageUpdate{"k": {Offset: []byte("k"), Data: []byte{2}}, "j": {Offset: []byte("j"), Data: []byte{1}}}
	case 4:
		// an update with empty data (a deletion) is an update like any other: the later one wins
		o.StorageUpdates = map[string]*vmcommon.StorageUpdate{"k": {Offset: []byte("k"), Data: []byte{}}}
	case 5:
		o.StorageUpdates = map[string]*vmcommon.StorageUpdate{"k": {Offset: []byte("k"), Data: nil}, "m": {Offset: []byte("m"), Data: []byte{3}}, "j": {Offset: []byte("j"), Data: []byte{}}}
	}
	if s.code == 1 {
		o.Code, o.CodeMetadata, o.CodeDeployerAddress = []byte("x"), []byte{1, 0}, []byte("D")
	}
	if s.code == 2 {
		// other code, other flags of the same length, another deployer (a deploy followed by an
		// upgrade of the same address)
		o.Code, o.CodeMetadata, o.CodeDeployerAddress = []byte("yy"), []byte{4, 2}, []byte("E")
	}
	ts := []vmcommon.OutputTransfer{
		{Value: big.NewInt(1), GasLimit: 1, Data: []byte("t1")},
		{Value: big.NewInt(2), GasLimit: 2, Data: []byte("t2")},
		{Value: big.NewInt(3), GasLimit: 3, Data: []byte("t3")},
	}
	if s.transfers > 0 {
		// spare capacity on purpose: an append into it would be visible to whoever shares the array
		buf := make([]vmcommon.OutputTransfer, s.transfers, 4)
		copy(buf, ts[:s.transfers])
		o.OutputTransfers = buf
	}
	if s.gas == 1 {
		o.GasUsed = 9
	}
	return o
}

func accSpecs(withCode bool) []accSpec {
	var out []accSpec
	codes := []int{0}
	if withCode {
		codes = []int{0, 1}
	}
	for addr := 0; addr < 2; addr++ {
		for nonce := 0; nonce < 3; nonce++ {
			for bal := 0; bal < 2; bal++ {
				for delta := 0; delta < 4; delta++ {
					for st := 0; st < 4; st++ {
						for _, code := range codes {
							for tr := 0; tr < 4; tr++ {
								for gas := 0; gas < 2; gas++ {
									out = append(out, accSpec{addr, nonce, bal, delta, st, code, tr, gas})
								}
							}
						}
					}
				}
			}
		}
	}
	// a second code / code-metadata / deployer value, over a sub-product of the other dimensions
	if withCode {
		for addr := 0; addr < 2; addr++ {
			for bal := 0; bal < 2; bal++ {
				for delta := 0; delta < 4; delta++ {
					for st := 0; st < 4; st += 2 {
						for tr := 0; tr < 4; tr += 3 {
							out = append(out, accSpec{addr, 0, bal, delta, st, 2, tr, 0})
						}
					}
				}
			}
		}
	}
	// storage updates with empty data, over a sub-product of the other dimensions
	for addr := 0; addr < 2; addr++ {
		for bal := 0; bal < 2; bal++ {
			for delta := 0; delta < 4; delta++ {
				for st := 4; st < 6; st++ {
					for tr := 0; tr < 4; tr += 3 {
						out = append(out, accSpec{addr, 0, bal, delta, st, 0, tr, 0})
					}
				}
			}
		}
	}
	return out
}

// C20 decides "shared VM helper types obey their algebraic laws".
func C20(tier Tier) int {
	start := time.Now()
	const P = "C20"
	flags := NewEnum()
	// 1. all 65 536 byte pairs through the three flag codecs
	for b0 := 0; b0 < 256; b0++ {
		for b1 := 0; b1 < 256; b1++ {
			in := []byte{byte(b0), byte(b1)}
			cm := vmcommon.CodeMetadataFromBytes(in)
			want := vmcommon.CodeMetadata{Upgradeable: b0&1 != 0, Readable: b0&4 != 0, Payable: b1&2 != 0}
			out := cm.ToBytes()
			again := vmcommon.CodeMetadataFromBytes(out)
			if cm != want || again != cm || !bytes.Equal(out, []byte{byte(b0) & 5, byte(b1) & 2}) || !bytes.Equal(in, []byte{byte(b0), byte(b1)}) {
				flags.Fail(P, "flags", "code-metadata-roundtrip", fmt.Sprintf("CodeMetadata: bytes %x decode to %+v, re-encode to %x", in, cm, out), "case", fmt.Sprintf("%x", in))
			}
			g := builtInFunctions.ESDTGlobalMetadataFromBytes(in)
			gout := g.ToBytes()
			if g.Paused != (b0&1 != 0) || builtInFunctions.ESDTGlobalMetadataFromBytes(gout) != g || !bytes.Equal(gout, []byte{byte(b0) & 1, 0}) {
				flags.Fail(P, "flags", "esdt-global-roundtrip", fmt.Sprintf("ESDTGlobalMetadata: bytes %x decode to %+v, re-encode to %x", in, g, gout), "case", fmt.Sprintf("%x", in))
			}
			u := builtInFunctions.ESDTUserMetadataFromBytes(in)
			uout := u.ToBytes()
			if u.Frozen != (b0&1 != 0) || builtInFunctions.ESDTUserMetadataFromBytes(uout) != u || !bytes.Equal(uout, []byte{byte(b0) & 1, 0}) {
				flags.Fail(P, "flags", "esdt-user-roundtrip", fmt.Sprintf("ESDTUserMetadata: bytes %x decode to %+v, re-encode to %x", in, u, uout), "case", fmt.Sprintf("%x", in))
			}
			// the encoded bytes belong to the caller: setting every bit in them must not change what
			// the next encoding (of any of the three types) gives
			for i := range out {
				out[i] = 0xff
			}
			for i := range gout {
				gout[i] = 0xff
			}
			for i := range uout {
				uout[i] = 0xff
			}
			if !bytes.Equal(cm.ToBytes(), []byte{byte(b0) & 5, byte(b1) & 2}) || !bytes.Equal(g.ToBytes(), []byte{byte(b0) & 1, 0}) || !bytes.Equal(u.ToBytes(), []byte{byte(b0) & 1, 0}) ||
				!bytes.Equal((&builtInFunctions.ESDTUserMetadata{}).ToBytes(), []byte{0, 0}) || !bytes.Equal((&builtInFunctions.ESDTGlobalMetadata{}).ToBytes(), []byte{0, 0}) {
				flags.Fail(P, "flags", "encoded-bytes-shared", fmt.Sprintf("after the caller changed the bytes returned for %x in place, a later ToBytes gives other bytes (the encoders hand out something they keep)", in), "case", fmt.Sprintf("shared:%x", in))
			}
			flags.Case(fmt.Sprintf("pair:%v/%v/%v", cm, g.Paused, u.Frozen))
		}
	}
	flags.Sample("byte pair 0x05 0x02 -> {Payable Upgradeable Readable}, re-encoded 0x05 0x02; all 65536 pairs enumerated")
	// 2. every other length 0,1 (all values) and 3,4 over {00,01,02,04,ff}
	var others [][]byte
	others = append(others, []byte{}, nil)
	for b := 0; b < 256; b++ {
		others = append(others, []byte{byte(b)})
	}
	alpha := []byte{0, 1, 2, 4, 0xff}
	for _, a := range alpha {
		for _, b := range alpha {
			for _, c := range alpha {
				others = append(others, []byte{a, b, c})
				for _, d := range alpha {
					others = append(others, []byte{a, b, c, d})
				}
			}
		}
	}
	for _, in := range others {
		if vmcommon.CodeMetadataFromBytes(in) != (vmcommon.CodeMetadata{}) || builtInFunctions.ESDTGlobalMetadataFromBytes(in).Paused || builtInFunctions.ESDTUserMetadataFromBytes(in).Frozen {
			flags.Fail(P, "flags", "other-length-not-empty", fmt.Sprintf("input %x of length %d does not decode to the empty value", in, len(in)), "case", fmt.Sprintf("%x", in))
		}
		flags.Case(fmt.Sprintf("other-length:%d", len(in)))
	}
	// 3. address classification
	addrs := NewEnum()
	ids := [][]byte{{}, {0xff}, {0xff, 0xff}, {0}, {0xfe}, {0xff, 0xfe}, bytes.Repeat([]byte{0xff}, 31), bytes.Repeat([]byte{0xff}, 32), bytes.Repeat([]byte{0xff}, 33), bytes.Repeat([]byte{0xff}, 40),
		append(bytes.Repeat([]byte{0xff}, 39), 0xfe)}
	var cases [][]byte
	for l := 0; l <= 40; l++ {
		for _, fill := range []byte{0, 0xff, 1} {
			base := bytes.Repeat([]byte{fill}, l)
			cases = append(cases, base)
			for pos := 0; pos < l; pos++ {
				for _, dev := range []byte{0, 1, 0xff, 0xfe} {
					if dev == fill {
						continue
					}
					x := append([]byte{}, base...)
					x[pos] = dev
					cases = append(cases, x)
				}
			}
			// zero prefix of each boundary length followed by the fill
			for _, pl := range []int{8, 10, 25, 30, 32} {
				if pl < l {
					x := append([]byte{}, base...)
					for i := 0; i < pl; i++ {
						x[i] = 0
					}
					cases = append(cases, x)
					y := append([]byte{}, base...)
					for i := 0; i < pl; i++ {
						y[i] = 0xff
					}
					cases = append(cases, y)
				}
			}
		}
	}
	cases = append(cases, vmcommon.SystemAccountAddress, vmcommon.ESDTSCAddress, []byte("ELROND"), []byte("ELRONDesdt"), []byte("ELRON"), []byte("elrond"), []byte("ELROND\x00"), []byte("xELROND"))
	// the protected prefix in every position of keys up to 20 bytes, once and twice
	for l := 6; l <= 20; l++ {
		for p1 := 0; p1+6 <= l; p1++ {
			k := bytes.Repeat([]byte{'x'}, l)
			copy(k[p1:], "ELROND")
			cases = append(cases, k)
			for p2 := p1 + 1; p2+6 <= l; p2++ {
				k2 := append([]byte{}, k...)
				copy(k2[p2:], "ELROND")
				cases = append(cases, k2)
			}
		}
	}
	// pairs of bytes whose sum is a multiple of 256, short and 32 bytes long (a classifier that
	// accumulates instead of comparing is blind to them)
	for b := 1; b < 256; b++ {
		cases = append(cases, []byte{byte(b), byte(256 - b)})
		x := make([]byte, 32)
		x[3], x[17] = byte(b), byte(256-b)
		cases = append(cases, x)
		y := bytes.Repeat([]byte{0x11}, 32)
		y[0], y[31] = byte(b), byte((256*32-0x11*30-b)%256)
		cases = append(cases, y)
	}
	for _, a := range cases {
		a := a
		orig := append([]byte{}, a...)
		var sys, sc, empty, allowed bool
		if p := guard(func() {
			sys, sc, empty, allowed = vmcommon.IsSystemAccountAddress(a), vmcommon.IsSmartContractAddress(a), vmcommon.IsEmptyAddress(a), vmcommon.IsAllowedToSaveUnderKey(a)
		}); p != nil {
			addrs.Fail(P, "address", "classifier-panic", fmt.Sprintf("classifier panicked on %x: %v", a, p), "case", fmt.Sprintf("%x", a))
			continue
		}
		if sys != refIsSystemAccount(a) || sc != refIsSC(a) || empty != refIsEmpty(a) || allowed != refAllowedKey(a) {
			addrs.Fail(P, "address", "classifier-differs-from-documentation", fmt.Sprintf("address %x (len %d): system=%v contract=%v empty=%v keyAllowed=%v; documented %v %v %v %v", a, len(a), sys, sc, empty, allowed,
				refIsSystemAccount(a), refIsSC(a), refIsEmpty(a), refAllowedKey(a)), "case", fmt.Sprintf("%x", a))
		}
		for _, id := range ids {
			id := id
			var onMeta, isMeta bool
			if p := guard(func() {
				onMeta, isMeta = vmcommon.IsSmartContractOnMetachain(id, a), vmcommon.IsMetachainIdentifier(id)
			}); p != nil {
				addrs.Fail(P, "address", "classifier-panic", fmt.Sprintf("IsSmartContractOnMetachain(%x,%x) panicked: %v", id, a, p), "case", fmt.Sprintf("%x", a))
				continue
			}
			if onMeta && !sc {
				addrs.Fail(P, "address", "metachain-contract-not-contract", fmt.Sprintf("%x with identifier %x is a metachain contract but not a contract address", a, id), "case", fmt.Sprintf("%x", a))
			}
			if onMeta != refIsSCOnMeta(id, a) || isMeta != refIsMetaID(id) {
				addrs.Fail(P, "address", "metachain-classifier-differs", fmt.Sprintf("IsSmartContractOnMetachain(%x,%x)=%v documented %v", id, a, onMeta, refIsSCOnMeta(id, a)), "case", fmt.Sprintf("%x", a))
			}
			addrs.Case(fmt.Sprintf("addr:len%d:sys%v:sc%v:empty%v:key%v:meta%v", len(a)/8, sys, sc, empty, allowed, onMeta))
		}
		if !bytes.Equal(a, orig) {
			addrs.Fail(P, "address", "input-mutated", "a classifier modified its input", "case", fmt.Sprintf("%x", orig))
		}
	}
	if !vmcommon.IsSystemAccountAddress(vmcommon.SystemAccountAddress) || vmcommon.IsSmartContractAddress(vmcommon.SystemAccountAddress) ||
		!vmcommon.IsSmartContractAddress(vmcommon.ESDTSCAddress) || !vmcommon.IsSmartContractOnMetachain(vmcommon.ESDTSCAddress[30:], vmcommon.ESDTSCAddress) ||
		vmcommon.IsSystemAccountAddress(vmcommon.ESDTSCAddress) || len(vmcommon.SystemAccountAddress) != 32 || len(vmcommon.ESDTSCAddress) != 32 {
		addrs.Fail(P, "address", "special-addresses", "SystemAccountAddress / ESDTSCAddress do not classify as documented", "case", "special")
	}
	addrs.Sample(fmt.Sprintf("%d structured addresses of length 0..40 x %d shard identifiers; e.g. ESDTSCAddress -> contract on metachain", len(cases), len(ids)))
	// 4. checked subtraction
	sub := NewEnum()
	vals := []uint64{0, 1, 2, 1<<63 - 1, 1 << 63, 1<<64 - 2, 1<<64 - 1}
	for _, a := range vals {
		for _, b := range vals {
			r, err := vmcommon.SafeSubUint64(a, b)
			if (err != nil) != (a < b) || (err == nil && r != a-b) || (err != nil && r != 0) {
				sub.Fail(P, "safesub", "safe-sub", fmt.Sprintf("SafeSubUint64(%d,%d) = %d, %v", a, b, r, err), "case", fmt.Sprintf("%d-%d", a, b))
			}
			sub.Case(fmt.Sprintf("sub:underflow=%v", a < b))
		}
	}
	// 5. merge: all ordered pairs (and triples in the thorough tier) against the reference merge
	specs := accSpecs(true)
	merge := make([]*Enum, NumWorkers())
	for i := range merge {
		merge[i] = NewEnum()
	}
	n := len(specs)
	// the accounts merged last: two without code, one with each code / code-metadata value
	third := []accSpec{{1, 2, 1, 3, 3, 0, 3, 1}, {0, 0, 0, 1, 2, 0, 1, 0}, {1, 0, 2, 2, 2, 2, 3, 0}, {0, 1, 1, 0, 0, 1, 0, 0}}
	Parallel(n, func(wk, i int) {
		e := merge[wk]
		for j := 0; j < n; j++ {
			l, r := buildAcc(specs[i]), buildAcc(specs[j])
			rSnap := snapshotAcc(r)
			lRef := snapshotAcc(l)
			l.MergeOutputAccounts(r)
			want := refMerge(lRef, rSnap)
			if f := statedEq(snapshotAcc(l), want); f != "" {
				e.Fail(P, "merge", "result:"+f, fmt.Sprintf("merge of %+v into %+v: field %s differs from the reference merge", specs[j], specs[i], f), "case", fmt.Sprintf("%+v <- %+v", specs[i], specs[j]))
			}
			if f := refEq(snapshotAcc(r), rSnap, true); f != "" {
				e.Fail(P, "merge", "merged-in-mutated:"+f, fmt.Sprintf("merging %+v into %+v modified the merged-in account (field %s)", specs[j], specs[i], f), "case", fmt.Sprintf("%+v <- %+v", specs[i], specs[j]))
			}
			// later merges into the same result must not reach back into r either
			for ti, t := range third {
				if !tier.Thorough() && (i+j+ti)%7 != 0 {
					continue
				}
				c := buildAcc(t)
				cSnap := snapshotAcc(c)
				l2 := buildAcc(specs[i])
				r2 := buildAcc(specs[j])
				r2Snap := snapshotAcc(r2)
				l2.MergeOutputAccounts(r2)
				l2.MergeOutputAccounts(c)
				l2.MergeOutputAccounts(c)
				if f := refEq(snapshotAcc(r2), r2Snap, true); f != "" {
					e.Fail(P, "merge", "merged-in-mutated-by-later-merge:"+f, fmt.Sprintf("after merging %+v and then %+v into %+v the first merged-in account changed (field %s)", specs[j], t, specs[i], f), "case", fmt.Sprintf("%+v <- %+v <- %+v", specs[i], specs[j], t))
				}
				if f := refEq(snapshotAcc(c), cSnap, true); f != "" {
					e.Fail(P, "merge", "merged-in-mutated-by-later-merge:"+f, "a twice merged-in account changed", "case", fmt.Sprintf("%+v", t))
				}
				want3 := refMerge(refMerge(refMerge(snapshotAcc(buildAcc(specs[i])), r2Snap), cSnap), cSnap)
				if f := statedEq(snapshotAcc(l2), want3); f != "" {
					e.Fail(P, "merge", "chain-result:"+f, fmt.Sprintf("chain merge result differs from the reference in field %s", f), "case", fmt.Sprintf("%+v <- %+v <- %+v", specs[i], specs[j], t))
				}
				e.Case("merge3")
			}
			e.Case(fmt.Sprintf("merge:d%d%d:s%d%d:t%d%d:n%d%d", specs[i].delta, specs[j].delta, specs[i].storage, specs[j].storage, specs[i].transfers, specs[j].transfers, specs[i].nonce, specs[j].nonce))
		}
	})
	merge[0].Sample(fmt.Sprintf("%d output accounts (address x nonce x balance x delta{nil,-3,0,7} x storage{nil,{},{k:1},{k:2,j:1}} x code x transfers{0..3, spare capacity} x gas); every ordered pair merged and compared with the reference merge", n))
	all := append([]*Enum{flags, addrs, sub}, merge...)
	return FinishEnum(P, tier, "exploration", start,
		"exhaustive products: all 65536 byte pairs + all other lengths 0,1 (all values) and 3,4 over {00,01,02,04,ff}; structured addresses of length 0..40 (fill x single deviating byte at each position x boundary prefixes) x 6 shard identifiers; SafeSubUint64 on 7x7 boundary values; all ordered pairs of generated output accounts (plus triples). A class is distinct by (decoded flags | address classification vector | merge field-shape combination)",
		[]string{"the reference classifiers and the reference merge are written from the documentation in address.go / output.go and are trusted"},
		true, map[string]interface{}{"merge_accounts": n, "merge_pairs": n * n}, []string{"sub:underflow=true", "sub:underflow=false", "merge3"}, all...)
}
