package checks

import (
	"bytes"
	"fmt"
	"math/big"
	"sort"
	"time"
	"unsafe"

	vmcommon "github.com/ElrondNetwork/elrond-vm-common"

	"verif/engine/explore"
	"verif/engine/uni"
	"verif/engine/world"
)

func wbuf(b *bytes.Buffer, x []byte) {
	fmt.Fprintf(b, "%d:", len(x))
	b.Write(x)
	b.WriteByte(';')
}

func bigStr(v *big.Int) string {
	if v == nil {
		return "nil"
	}
	return v.String()
}

// canonOutput serialises everything observable of one execution.
func canonOutput(l *world.Leg) []byte {
	var b bytes.Buffer
	fmt.Fprintf(&b, "side=%s shard=%d fn=%s;", l.Side, l.Shard, l.Func)
	if l.Panic != nil {
		fmt.Fprintf(&b, "panic=%v;", l.Panic)
	}
	if l.Err != nil {
		fmt.Fprintf(&b, "err=%s;", l.Err.Error())
	}
	if o := l.Out; o != nil {
		fmt.Fprintf(&b, "rc=%d msg=%q gas=%d refund=%s;", o.ReturnCode, o.ReturnMessage, o.GasRemaining, bigStr(o.GasRefund))
		for _, r := range o.ReturnData {
			wbuf(&b, r)
		}
		b.WriteString("logs;")
		for _, lg := range o.Logs {
			if lg == nil {
				b.WriteString("nil-log;")
				continue
			}
			wbuf(&b, lg.Identifier)
			wbuf(&b, lg.Address)
			wbuf(&b, lg.Data)
			for _, t := range lg.Topics {
				wbuf(&b, t)
			}
			b.WriteString("|")
		}
		keys := make([]string, 0, len(o.OutputAccounts))
		for k := range o.OutputAccounts {
			keys = append(keys, k)
		}
		sort.Strings(keys)
		for _, k := range keys {
			oa := o.OutputAccounts[k]
			wbuf(&b, []byte(k))
			if oa == nil {
				b.WriteString("nil-acc;")
				continue
			}
			wbuf(&b, oa.Address)
			fmt.Fprintf(&b, "n=%d bal=%s delta=%s gas=%d;", oa.Nonce, bigStr(oa.Balance), bigStr(oa.BalanceDelta), oa.GasUsed)
			wbuf(&b, oa.Code)
			wbuf(&b, oa.CodeMetadata)
			wbuf(&b, oa.CodeDeployerAddress)
			sk := make([]string, 0, len(oa.StorageUpdates))
			for k2 := range oa.StorageUpdates {
				sk = append(sk, k2)
			}
			sort.Strings(sk)
			for _, k2 := range sk {
				wbuf(&b, []byte(k2))
				if u := oa.StorageUpdates[k2]; u != nil {
					wbuf(&b, u.Offset)
					wbuf(&b, u.Data)
				}
			}
			for _, t := range oa.OutputTransfers {
				fmt.Fprintf(&b, "t v=%s gl=%d lk=%d ct=%d;", bigStr(t.Value), t.GasLimit, t.GasLocked, t.CallType)
				wbuf(&b, t.Data)
				wbuf(&b, t.SenderAddress)
			}
		}
		for _, d := range o.DeletedAccounts {
			wbuf(&b, d)
		}
		for _, d := range o.TouchedAccounts {
			wbuf(&b, d)
		}
	}
	return b.Bytes()
}

func canonStep(post *world.World, legs []*world.Leg) []byte {
	var b bytes.Buffer
	for _, l := range legs {
		b.Write(canonOutput(l))
		b.WriteString("\n")
	}
	b.Write(post.CanonBytes(true))
	return b.Bytes()
}

// carve rebuilds the input with every byte slice cut out of one backing array, each followed by a
// gap of sentinel bytes that is inside the slice's capacity, and returns a checker that reports
// any difference after the call.
func carve(in *vmcommon.ContractCallInput, report func(what string)) func() {
	const gap = 8
	total := 0
	for _, a := range in.Arguments {
		total += len(a) + gap
	}
	total += len(in.CallerAddr) + gap + len(in.RecipientAddr) + gap
	back := bytes.Repeat([]byte{0xEE}, total)
	off := 0
	cut := func(src []byte) []byte {
		copy(back[off:], src)
		s := back[off : off+len(src) : off+len(src)+gap]
		off += len(src) + gap
		return s
	}
	args := make([][]byte, len(in.Arguments), len(in.Arguments)+4)
	for i, a := range in.Arguments {
		args[i] = cut(a)
	}
	in.Arguments = args
	in.CallerAddr = cut(in.CallerAddr)
	in.RecipientAddr = cut(in.RecipientAddr)
	snapBack := append([]byte{}, back...)
	type hdr struct {
		p unsafe.Pointer
		l int
	}
	hdrs := make([]hdr, len(args))
	for i, a := range args {
		if len(a) > 0 {
			hdrs[i] = hdr{unsafe.Pointer(&a[0]), len(a)}
		} else {
			hdrs[i] = hdr{nil, 0}
		}
	}
	callValue := new(big.Int).Set(in.CallValue)
	callValuePtr := in.CallValue
	snap := *in
	return func() {
		if !bytes.Equal(back, snapBack) {
			for i := range back {
				if back[i] != snapBack[i] {
					report(fmt.Sprintf("byte %d of the input's backing array changed from %02x to %02x (argument bytes or the spare capacity behind an argument were written)", i, snapBack[i], back[i]))
					break
				}
			}
		}
		if len(in.Arguments) != len(args) || cap(in.Arguments) != cap(args) || (len(args) > 0 && &in.Arguments[0] != &args[0]) {
			report("the Arguments slice header of the input changed")
			return
		}
		for i, a := range in.Arguments {
			var p unsafe.Pointer
			if len(a) > 0 {
				p = unsafe.Pointer(&a[0])
			}
			if len(a) != hdrs[i].l || p != hdrs[i].p {
				report(fmt.Sprintf("argument %d of the input was replaced or resliced", i))
			}
		}
		for _, extra := range args[:cap(args)][len(args):] {
			if extra != nil {
				report("an element was appended into the spare capacity of the Arguments slice")
			}
		}
		if in.CallValue != callValuePtr || in.CallValue.Cmp(callValue) != 0 {
			report("CallValue of the input changed")
		}
		if in.GasProvided != snap.GasProvided || in.GasLocked != snap.GasLocked || in.CallType != snap.CallType || in.Function != snap.Function || in.GasPrice != snap.GasPrice ||
			in.ReturnCallAfterError != snap.ReturnCallAfterError || in.AllowInitFunction != snap.AllowInitFunction || len(in.ESDTTransfers) != len(snap.ESDTTransfers) ||
			len(in.CallerAddr) != len(snap.CallerAddr) || len(in.RecipientAddr) != len(snap.RecipientAddr) {
			report("a scalar field of the input changed")
		}
	}
}

// determinismHook re-executes every transition three more times and compares (C13).
type determinismHook struct {
	property string
	fresh    func() *world.Env
	others   []*world.World // other reachable states on which the same call is executed first
}

func (h *determinismHook) post(c *explore.Ctx, pre *world.World, act world.Action, post *world.World, legs []*world.Leg) {
	p := h.property
	base := canonStep(post, legs)
	fn := act.Func
	if len(legs) > 0 {
		fn = legs[0].Func
	}
	cls := "call"
	if act.Kind != world.ActCall {
		cls = "delivery"
	}
	// (1) the worker's long-lived container again, on a clone of the pre-state, with carved input
	env := c.Env
	env.PrepareInput = func(in *vmcommon.ContractCallInput) func() {
		return carve(in, func(what string) {
			c.Report(p, "purity", fn+":input-modified", fmt.Sprintf("%s modified its input: %s", fn, what))
		})
	}
	p1, l1 := env.Step(pre.Clone(), act)
	env.PrepareInput = nil
	if !bytes.Equal(canonStep(p1, l1), base) {
		c.Report(p, "determinism", fn+":"+cls+":repetition", fmt.Sprintf("repeating %s on an equal world with the same (reused) function object gives a different result", DescribeAction(act)))
	}
	// the returned structures are the caller's: every number in the output of the repetition is
	// changed in place (a caller books balances into what it got back); if the function handed out
	// something it keeps using - a package-level zero, a cached value - the executions below differ
	for _, l := range l1 {
		if l.Out == nil {
			continue
		}
		five := big.NewInt(5)
		if l.Out.GasRefund != nil {
			l.Out.GasRefund.Add(l.Out.GasRefund, five)
		}
		for _, oa := range l.Out.OutputAccounts {
			if oa == nil {
				continue
			}
			if oa.Balance != nil {
				oa.Balance.Add(oa.Balance, five)
			}
			if oa.BalanceDelta != nil {
				oa.BalanceDelta.Add(oa.BalanceDelta, five)
			}
			for i := range oa.OutputTransfers {
				if v := oa.OutputTransfers[i].Value; v != nil {
					v.Add(v, five)
				}
			}
		}
	}
	// (2) a container freshly built by the factory
	fe := h.fresh()
	p2, l2 := fe.Step(pre.Clone(), act)
	if !bytes.Equal(canonStep(p2, l2), base) {
		c.Report(p, "determinism", fn+":"+cls+":fresh-instance", fmt.Sprintf("%s gives different results on the long-lived function object and on a freshly built one", DescribeAction(act)))
	}
	// (3) a fresh goroutine and a container that has just executed a different, unrelated call of the same name
	done := make(chan []byte)
	go func() {
		if act.Kind == world.ActCall {
			other := act
			other.Args = nil
			for i, a := range act.Args {
				x := append([]byte{}, a...)
				if i == 0 {
					x = append(x, 'Z') // another token id / key / address
				}
				other.Args = append(other.Args, x)
			}
			fe.Step(pre.Clone(), other)
			fe.Step(pre.Clone(), uni.SetRole(uni.B0, uni.U, vmcommon.ESDTRoleLocalMint))
		}
		p3, l3 := fe.Step(pre.Clone(), act)
		done <- canonStep(p3, l3)
	}()
	if got := <-done; !bytes.Equal(got, base) {
		c.Report(p, "determinism", fn+":"+cls+":after-unrelated-call", fmt.Sprintf("%s gives a different result after an unrelated call on the same function object / in another goroutine", DescribeAction(act)))
	}
	// (4) the same call executed on a different reachable state first (a result cached by input
	// but not by state would leak from one world into the other)
	if act.Kind == world.ActCall {
		for i, sw := range h.others {
			// an unrelated call in between, so that the call on the other state is not itself
			// answered from whatever the previous executions left behind
			fe.Step(sw, uni.Call(uni.B0, uni.B0, act.Func, []byte("Z"), []byte{1}, []byte{1}))
			fe.Step(sw, act)
			p4, l4 := fe.Step(pre.Clone(), act)
			if !bytes.Equal(canonStep(p4, l4), base) {
				c.Report(p, "determinism", fn+":"+cls+":after-same-call-on-other-state", fmt.Sprintf("%s gives a different result right after the same call was executed on another world state (seed #%d) with the same function object", DescribeAction(act), i))
			}
		}
	}
	c.Class("rechecked:" + fn)
}

func c13Profiles(tier Tier) []*explore.Profile {
	o := menuOpts{thorough: tier.Thorough(), shards: 2, undisciplined: true}
	mk := func(name string, seeds []string, depth int, menu func(w *world.World) []world.Action) *explore.Profile {
		cfg := ledgerEnv(2)
		h := &determinismHook{property: "C13", fresh: func() *world.Env {
			e, err := world.NewEnv(cfg)
			if err != nil {
				panic(err)
			}
			return e
		}}
		p := &explore.Profile{Name: name, EnvCfg: cfg, Seeds: seedsOf(seeds...), Depth: depth, Deadline: tierDeadline(tier), Menu: menu, WithGhost: true,
			ContinueRoots: 24, ContinueDepth: 3} // a narrow beam: every transition costs a dozen executions here
		{
			e0 := h.fresh()
			for i, sd := range seeds {
				if i < 2 {
					if sb := uni.SeedBuilder(e0, sd); sb.Failed == "" {
						h.others = append(h.others, sb.W)
					}
				}
			}
		}
		// one fresh environment per worker and transition would dominate the cost; a fresh one is
		// built every 64 transitions per worker and otherwise reused (it has then executed only
		// the re-executions themselves)
		type slot struct {
			env *world.Env
			n   int
		}
		slots := map[*world.Env]*slot{}
		var mu = make(chan struct{}, 1)
		mu <- struct{}{}
		fresh := h.fresh
		p.PostStep = func(c *explore.Ctx, pre *world.World, act world.Action, post *world.World, legs []*world.Leg) {
			<-mu
			s := slots[c.Env]
			if s == nil {
				s = &slot{}
				slots[c.Env] = s
			}
			mu <- struct{}{}
			if s.env == nil || s.n%64 == 0 {
				s.env = fresh()
			}
			s.n++
			hh := *h
			hh.fresh = func() *world.Env { return s.env }
			hh.post(c, pre, act, post, legs)
		}
		return p
	}
	whole := func(w *world.World) []world.Action { return wholeMenu(w, o) }
	depth := 2
	if tier.Thorough() {
		depth = 3
	}
	out := []*explore.Profile{mk("whole-menu", []string{"mixed", "frozen", "handover", "refunds"}, depth, whole)}
	if tier.Thorough() {
		out = append(out, mk("transfer", []string{"mixed", "refunds"}, 2, func(w *world.World) []world.Action {
			acts := transferMenu(w, menuOpts{shards: 2})
			return append(acts, deliveries(w)...)
		}))
	}
	return out
}

func init() { LedgerProfiles["C13"] = c13Profiles }

// reconfigurationDeterminism: equal configuration histories give equal behaviour. N fresh factories
// receive the same history (functions not yet active, a schedule change, the activation, a second
// change); afterwards every priced class must give byte-identical results on all of them. The
// factory's broadcast ranges over a Go map, whose order differs from run to run: a dependence on it
// shows as a difference between instances.
func reconfigurationDeterminism(tier Tier) ([]Viol, map[string]interface{}) {
	n := 24
	if tier.Thorough() {
		n = 96
	}
	classes := pricedClasses()
	type variant struct {
		name  string
		apply func(env *world.Env)
	}
	variants := []variant{
		{"change while the epoch-gated functions are inactive, then activation", func(env *world.Env) {
			env.ChangeSchedule(world.PrimeSchedule(1))
			env.ConfirmEpoch(1)
		}},
		{"two changes, the first while inactive", func(env *world.Env) {
			env.ChangeSchedule(world.PrimeSchedule(1))
			env.ConfirmEpoch(1)
			env.ChangeSchedule(world.PrimeSchedule(2))
		}},
		{"change, rejected change, regression below the activation epoch and back", func(env *world.Env) {
			env.ConfirmEpoch(1)
			env.ChangeSchedule(world.PrimeSchedule(2))
			env.ChangeSchedule(nil)
			env.ConfirmEpoch(0)
			env.ChangeSchedule(world.PrimeSchedule(1))
			env.ConfirmEpoch(1)
		}},
	}
	var viols []Viol
	var baseWorld *world.World
	execs := 0
	for _, v := range variants {
		var first [][]byte
		reported := map[string]bool{}
		for i := 0; i < n; i++ {
			cfg := ledgerEnv(2)
			cfg.Schedule = world.PrimeSchedule(0)
			cfg.ActivationEpoch = 1
			env, err := world.NewEnv(cfg)
			if err != nil {
				panic(err)
			}
			if baseWorld == nil {
				e0, _ := world.NewEnv(ledgerEnv(2))
				baseWorld = catalogueBase(e0)
			}
			v.apply(env)
			var canon [][]byte
			for _, pc := range classes {
				act := pc.act
				act.Gas = 1_000_000_000
				post, legs := env.Step(baseWorld, act)
				canon = append(canon, canonStep(post, legs))
				execs++
			}
			if i == 0 {
				first = canon
				continue
			}
			for ci := range canon {
				if !bytes.Equal(canon[ci], first[ci]) && !reported[classes[ci].name] {
					reported[classes[ci].name] = true
					fn := classes[ci].act.Func
					viols = append(viols, Viol{Property: "C13", Clause: "determinism", Sig: fn + ":differs-between-equally-configured-instances",
						Detail: fmt.Sprintf("after the configuration history \"%s\" applied to two freshly built factories, %s gives different results on instance 0 and instance %d (equal world, equal input)", v.name, classes[ci].name, i),
						Kind:   "case", Replay: "reconfiguration:" + v.name + ":" + classes[ci].name})
				}
			}
		}
	}
	return viols, map[string]interface{}{"instances_per_history": n, "configuration_histories": len(variants), "classes": len(classes), "executions": execs}
}

// seedConstructionDeterminism: every seed recipe (a fixed list of real calls from the empty world)
// is executed on a freshly built set of function objects and again on a set that has just executed
// all the other recipes; the two results must be identical (earlier unrelated calls on the same
// function objects must not matter).
func seedConstructionDeterminism() []Viol {
	names := []string{"fung", "sft", "mixed", "frozen", "aliased", "refunds", "refunds-with-call", "handover", "zero-credit"}
	var viols []Viol
	used, err := world.NewEnv(ledgerEnv(2))
	if err != nil {
		panic(err)
	}
	for round := 0; round < 2; round++ {
		for _, n := range names {
			fresh, _ := world.NewEnv(ledgerEnv(2))
			a, b := uni.SeedBuilderOn(fresh, n), uni.SeedBuilderOn(used, n)
			same := a.Failed == b.Failed
			if same && a.Failed == "" {
				same = a.W.Hash(true) == b.W.Hash(true)
			}
			if !same {
				viols = append(viols, Viol{Property: "C13", Clause: "determinism", Sig: "seed-recipe:" + n + ":differs-on-used-function-objects",
					Detail: fmt.Sprintf("the recipe of seed %q (real calls from the empty world) gives a different result on function objects that have executed other recipes before than on freshly built ones (fresh: %q, used: %q)", n, a.Failed, b.Failed),
					Kind:   "case", Replay: "seed-recipe:" + n})
				return viols
			}
		}
	}
	return viols
}

// C13 decides "execution is deterministic and does not modify its input".
func C13(tier Tier) int {
	PendingViolations["C13"], PendingCoverage["C13"] = nil, nil
	if sv := seedConstructionDeterminism(); len(sv) > 0 {
		// the searches below build their seeds on shared function objects: with this violation they
		// cannot be set up reliably, and the violation is already established
		o := &Outcome{Property: "C13", Tier: tier, Level: "model_checking", Start: time.Now(), Violations: sv,
			Coverage: map[string]interface{}{"states": 0, "transitions": 0, "traces_validated_against_impl": 0, "exhaustive": false, "stopped_after": "seed-recipe determinism", "samples": []interface{}{"seed recipes on fresh and on used function objects"}}}
		return Finish(o)
	}
	if rv, cov := reconfigurationDeterminism(tier); true {
		PendingViolations["C13"] = rv
		PendingCoverage["C13"] = map[string]interface{}{"reconfiguration_determinism": cov}
	}
	req := []string{"rechecked:ESDTTransfer", "rechecked:MultiESDTNFTTransfer", "rechecked:ESDTNFTCreate", "rechecked:ESDTSetRole", "rechecked:SaveKeyValue", "rechecked:ESDTNFTCreateRoleTransfer", "rechecked:ESDTWipe", "rechecked:ClaimDeveloperRewards"}
	return RunLedger("C13", tier, c13Profiles(tier), req,
		"map iteration order cannot be enumerated from outside: independence from it is observed through the 4 executions per transition only (DESIGN.md §7)",
		"inputs are rebuilt with all byte slices carved from one backing array with 8 sentinel bytes of spare capacity behind each")
}

// wholeMenu is the union of all menus plus non-minimal encodings and argument-tail variants.
func wholeMenu(w *world.World, o menuOpts) []world.Action {
	acts := transferMenuLight(w, o)
	acts = append(acts, supplyMenu(w, o)...)
	acts = append(acts, roleMenu(w, o, [][]byte{uni.F, uni.S})...)
	acts = append(acts, freezeMenu(w, o, true)...)
	acts = append(acts, accountMenu(w, o)...)
	acts = append(acts, impostorMenu(w, o)...)
	acts = append(acts, deliveries(w)...)
	// non-minimal number encodings
	lz := []byte{0, 1}
	acts = append(acts,
		uni.Call(uni.A0, uni.A0, vmcommon.BuiltInFunctionESDTLocalMint, uni.F, []byte{0, 2}),
		uni.Call(uni.A0, uni.A0, vmcommon.BuiltInFunctionESDTLocalBurn, uni.F, lz),
		uni.Call(uni.A0, uni.B0, vmcommon.BuiltInFunctionESDTTransfer, uni.F, lz),
		uni.Call(uni.A0, uni.ESDT, vmcommon.BuiltInFunctionESDTBurn, uni.F, lz),
		uni.Call(uni.A0, uni.A0, vmcommon.BuiltInFunctionESDTNFTTransfer, uni.S, lz, lz, uni.B0),
		uni.Call(uni.A0, uni.A0, vmcommon.BuiltInFunctionESDTNFTTransfer, uni.S, lz, lz, uni.C1),
		uni.Call(uni.A0, uni.A0, vmcommon.BuiltInFunctionESDTNFTAddQuantity, uni.S, lz, lz),
		uni.Call(uni.A0, uni.A0, vmcommon.BuiltInFunctionESDTNFTBurn, uni.S, lz, lz),
		uni.Call(uni.A0, uni.A0, vmcommon.BuiltInFunctionESDTNFTCreate, uni.S, lz, []byte("n"), []byte{0, 100}, []byte("h"), []byte("a"), []byte("u")),
		uni.Call(uni.A0, uni.A0, vmcommon.BuiltInFunctionMultiESDTNFTTransfer, uni.C1, []byte{0, 2}, uni.S, lz, lz, uni.F, []byte{0}, lz),
		uni.Call(uni.A0, uni.A0, vmcommon.BuiltInFunctionMultiESDTNFTTransfer, uni.B0, lz, uni.F, []byte{0, 0}, lz))
	// the same by a contract (its burn is forwarded to the system contract with the arguments it
	// was given), plain and as an asynchronous call
	{
		cb := uni.Call(uni.S0, uni.ESDT, vmcommon.BuiltInFunctionESDTBurn, uni.F, lz)
		ca := cb
		ca.CallType = vmcommon.AsynchronousCall
		ct := uni.Call(uni.S0, uni.B0, vmcommon.BuiltInFunctionESDTTransfer, uni.F, lz)
		cx := uni.Call(uni.S0, uni.C1, vmcommon.BuiltInFunctionESDTTransfer, uni.F, []byte{0, 0, 1})
		acts = append(acts, cb, ca, ct, cx)
	}
	// variable-length argument tails with empty arguments in every position (a function that
	// filters, compacts or reorders its argument list in place shows here)
	e, u1, u2 := []byte{}, []byte("u1"), []byte("uri-2")
	for _, tail := range [][][]byte{{e, u2}, {u1, e}, {e, e, u2}, {u1, e, u2}, {u2, u1}} {
		acts = append(acts,
			uni.Call(uni.A0, uni.A0, vmcommon.BuiltInFunctionESDTNFTAddURI, append([][]byte{uni.S, uni.Big(1)}, tail...)...),
			uni.Call(uni.A0, uni.A0, vmcommon.BuiltInFunctionESDTNFTCreate, append([][]byte{uni.S, uni.Big(1), []byte("n"), uni.Big(1), []byte("h"), []byte("a")}, tail...)...),
			uni.Call(uni.A0, uni.S0, vmcommon.BuiltInFunctionESDTTransfer, append([][]byte{uni.F, uni.Big(1), []byte("f")}, tail...)...),
			uni.Call(uni.A0, uni.A0, vmcommon.BuiltInFunctionESDTNFTTransfer, append([][]byte{uni.S, uni.Big(1), uni.Big(1), uni.S0, []byte("f")}, tail...)...),
			uni.Call(uni.A0, uni.A0, vmcommon.BuiltInFunctionMultiESDTNFTTransfer, append([][]byte{uni.S1c, uni.Big(2), uni.S, uni.Big(1), uni.Big(1), uni.F, e, uni.Big(1), []byte("f")}, tail...)...),
			uni.Call(uni.A0, uni.A0, vmcommon.BuiltInFunctionSaveKeyValue, append([][]byte{[]byte("k"), []byte("v")}, tail[:2]...)...),
		)
	}
	acts = append(acts,
		uni.Call(uni.A0, uni.A0, vmcommon.BuiltInFunctionSaveKeyValue, []byte("k"), e, []byte("k2"), []byte("v")),
		uni.Call(uni.A0, uni.A0, vmcommon.BuiltInFunctionSaveKeyValue, []byte("k"), []byte("v"), []byte("k"), e, []byte("k"), []byte("w")),
		uni.Multi(uni.A0, uni.B0, []uni.Ent{{Tok: uni.F, Nonce: 0, Q: 1}, {Tok: uni.S, Nonce: 1, Q: 1}, {Tok: uni.F, Nonce: 0, Q: 1}}),
	)
	acts = append(acts, boundaryNonceCalls()...)
	if o.undisciplined {
		// role messages no disciplined system contract sends (a name twice, an unknown name)
		acts = append(acts,
			uni.SetRole(uni.B0, uni.S, vmcommon.ESDTRoleNFTBurn, vmcommon.ESDTRoleNFTBurn, vmcommon.ESDTRoleNFTAddQuantity),
			uni.UnSetRole(uni.A0, uni.S, vmcommon.ESDTRoleNFTBurn, "ESDTRoleUnknown", vmcommon.ESDTRoleNFTBurn))
	}
	return acts
}

// boundaryNonceCalls: every nonce-taking function of a0 with nonces at the word boundary, given on
// 8 and on 9+ bytes (2^64-1 and 2^64-2 mirror nonces 1 and 2 under a signed conversion; 2^64+1 and
// the zero-padded 1 are read as nonce 1).
func boundaryNonceCalls() []world.Action {
	var acts []world.Action
	// nonces at the word boundary, given on 8 and on 9+ bytes (no such holding exists: every call
	// must be refused and touch nothing)
	for _, n := range [][]byte{bytes.Repeat([]byte{0xff}, 8), {0xff, 0xff, 0xff, 0xff, 0xff, 0xff, 0xff, 0xfe}, {0x80, 0, 0, 0, 0, 0, 0, 0}, {0x80, 0, 0, 0, 0, 0, 0, 1},
		{1, 0, 0, 0, 0, 0, 0, 0, 1}, {0, 0, 0, 0, 0, 0, 0, 0, 1}, {1, 0, 0, 0, 1}} {
		acts = append(acts,
			uni.Call(uni.A0, uni.A0, vmcommon.BuiltInFunctionESDTNFTAddQuantity, uni.S, n, uni.Big(1)),
			uni.Call(uni.A0, uni.A0, vmcommon.BuiltInFunctionESDTNFTBurn, uni.S, n, uni.Big(1)),
			uni.Call(uni.A0, uni.A0, vmcommon.BuiltInFunctionESDTNFTAddURI, uni.S, n, []byte("v")),
			uni.Call(uni.A0, uni.A0, vmcommon.BuiltInFunctionESDTNFTUpdateAttributes, uni.S, n, []byte("b")),
			uni.Call(uni.A0, uni.A0, vmcommon.BuiltInFunctionESDTNFTTransfer, uni.S, n, uni.Big(1), uni.B0),
			uni.Call(uni.A0, uni.A0, vmcommon.BuiltInFunctionESDTNFTTransfer, uni.S, n, uni.Big(1), uni.C1),
			uni.Call(uni.A0, uni.A0, vmcommon.BuiltInFunctionMultiESDTNFTTransfer, uni.C1, uni.Big(1), uni.S, n, uni.Big(1)),
			uni.Call(uni.A0, uni.A0, vmcommon.BuiltInFunctionMultiESDTNFTTransfer, uni.B0, uni.Big(1), uni.S, n, uni.Big(1)))
	}
	return acts
}
