package checks

import "verif/engine/uni"

// token identifiers of the active universe as strings (refreshed by useLongIDs)
var tF, tF1, tS, tS1, tS2, tU, tR string

func refreshTokens() {
	tF, tF1, tS, tS1, tU, tR = string(uni.F), string(uni.F1), string(uni.S), string(uni.S1), string(uni.U), string(uni.R)
	tS2 = string(uni.S) + "\x02"
}

func init() { refreshTokens() }

// useLongIDs switches the universe of token identifiers (never while a search is running).
func useLongIDs(on bool) {
	uni.UseLongIDs(on)
	refreshTokens()
}
