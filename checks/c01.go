package checks

import (
	"strings"
	"time"

	vmcommon "github.com/ElrondNetwork/elrond-vm-common"

	"verif/engine/explore"
	"verif/engine/uni"
	"verif/engine/world"
)

func seedsOf(names ...string) func(env *world.Env) []explore.SeedState {
	return func(env *world.Env) []explore.SeedState {
		var out []explore.SeedState
		for _, n := range names {
			b := uni.SeedBuilder(env, n)
			out = append(out, explore.SeedState{Name: n, W: b.W, Legs: b.Legs, Failed: b.Failed})
		}
		return out
	}
}

func ledgerEnv(shards int) world.EnvConfig {
	zero := uint32(0)
	return world.EnvConfig{NumShards: shards, DNS: [][]byte{uni.D0}, InitialEpoch: &zero}
}

// transferProfile is the C01 search (DESIGN.md §5 C01).
func transferProfile(tier Tier) *explore.Profile {
	o := menuOpts{thorough: tier.Thorough(), shards: 2}
	depth := 3
	if tier.Thorough() {
		depth = 4
	}
	return &explore.Profile{
		Name:   "transfer",
		EnvCfg: ledgerEnv(o.shards),
		Seeds: func(env *world.Env) []explore.SeedState {
			out := seedsOf("fung", "sft", "mixed", "frozen", "refunds", "refunds-with-call")(env)
			// an SFT created with a zero-length hash (legal), spread over three holders
			b := uni.SeedBuilder(env, "fung")
			b.Must(uni.SetRole(uni.A0, uni.S, uni.NFTRoles...))
			b.Must(uni.Call(uni.A0, uni.A0, vmcommon.BuiltInFunctionESDTNFTCreate, uni.S, uni.Big(6), []byte("n"), uni.Big(100), []byte{}, []byte("a"), []byte("u")))
			b.Must(uni.NFTTransfer(uni.A0, uni.B0, uni.S, 1, 2))
			b.Must(uni.NFTTransfer(uni.A0, uni.C1, uni.S, 1, 1)).DeliverAll()
			return append(out, explore.SeedState{Name: "sft-empty-hash", W: b.W, Legs: b.Legs, Failed: b.Failed})
		},
		Menu: func(w *world.World) []world.Action {
			acts := transferMenu(w, o)
			acts = append(acts, deliveries(w)...)
			acts = append(acts, freezeMenu(w, o, false)...)
			acts = append(acts, forgedArrivals(w)...)
			// metadata updates by the role holder on the copies it kept (no balance changes; they
			// must not disturb later deliveries and refunds)
			if held(w, uni.A0, tS1) > 0 {
				acts = append(acts, uni.Call(uni.A0, uni.A0, vmcommon.BuiltInFunctionESDTNFTUpdateAttributes, uni.S, uni.Big(1), []byte("b")))
			}
			if held(w, uni.A0, tS2) > 0 {
				acts = append(acts, uni.Call(uni.A0, uni.A0, vmcommon.BuiltInFunctionESDTNFTAddURI, uni.S, uni.Big(2), []byte("v")))
			}
			return acts
		},
		Depth:    depth,
		Deadline: tierDeadline(tier),
	}
}

func tierDeadline(tier Tier) time.Duration {
	// wall-clock caps are a safety net, far above what an idle machine needs (a capped profile ends
	// with exhaustive:false and exit 0)
	if tier.Thorough() {
		return 10 * time.Minute
	}
	return 5 * time.Minute
}

// PendingViolations / PendingCoverage let a check add the result of a preliminary enumeration to
// the outcome RunLedger assembles (keyed by property id).
var PendingViolations = map[string][]Viol{}
var PendingCoverage = map[string]map[string]interface{}{}

// RunLedger runs profiles with oracles and assembles a model_checking outcome.
func RunLedger(property string, tier Tier, profiles []*explore.Profile, require []string, extraAssumptions ...string) int {
	o := &Outcome{Property: property, Tier: tier, Level: "model_checking", Start: time.Now(),
		Assumptions: append(append([]string{}, LedgerAssumptions...), extraAssumptions...)}
	classes := map[string]int64{}
	var states, trans, legs int64
	exhaustive := true
	var perProfile []map[string]interface{}
	var samples []interface{}
	// second pass: the same profiles one level shallower over token identifiers of realistic shape
	// and length (COLLECT-a1b2c3, COLLECTION-0a0b0c, COLLECTION-0a0b0d, the unissued prefix COLLECTION-0a0b; the aliasing pair is then F||01)
	type pass struct {
		long bool
		p    *explore.Profile
	}
	var passes []pass
	for _, p := range profiles {
		passes = append(passes, pass{false, p})
	}
	for _, p := range profiles {
		if strings.HasPrefix(p.Name, "high-nonce") || p.Name == "role-product" || p.Name == "create-product" {
			continue
		}
		q := *p
		q.Name = p.Name + "+long-ids"
		if q.Depth > 1 {
			q.Depth--
		}
		passes = append(passes, pass{true, &q})
	}
	defer useLongIDs(false)
	for _, ps := range passes {
		p := ps.p
		useLongIDs(ps.long)
		// deterministic beam beyond the exhaustive bound (longer histories; a supplement only)
		if p.ContinueRoots == 0 && p.Depth >= 2 && p.Depth < 100 {
			p.ContinueRoots, p.ContinueDepth = 128, 4
			if tier.Thorough() {
				p.ContinueRoots, p.ContinueDepth = 1024, 6
			}
		}
		r, err := explore.Run(p)
		if err != nil {
			o.SelfCheck = append(o.SelfCheck, "profile "+p.Name+": "+err.Error())
			continue
		}
		states += r.States
		trans += r.Transitions
		legs += r.Legs
		if !r.Exhaustive {
			exhaustive = false
		}
		for _, sf := range r.SeedFailures {
			o.SelfCheck = append(o.SelfCheck, "profile "+p.Name+": seed "+sf)
		}
		MergeClasses(classes, r.Classes)
		o.Violations = append(o.Violations, FromExplore(r.Violations)...)
		perProfile = append(perProfile, map[string]interface{}{
			"profile": p.Name, "states": r.States, "transitions": r.Transitions, "legs": r.Legs,
			"depth_bound": p.Depth, "depth_completed": r.DepthCompleted, "exhaustive_within_bound": r.Exhaustive,
			"cap_hit": r.CapHit, "new_states_per_depth": compressDepths(r.PerDepthStates), "wall_s": r.Wall.Seconds(),
			"continuation": map[string]interface{}{"beam_width": r.ContinueRoots, "further_levels_completed": r.ContinueDepthCompleted, "states": r.ContinueStates,
				"note": "deterministic beam beyond the exhaustive bound: per level the states with the smallest hashes are expanded with the whole menu; a supplement, not part of the exhaustive-within-bound claim"},
		})
		for _, s := range r.Samples {
			samples = append(samples, map[string]interface{}{"profile": p.Name, "history": s})
		}
	}
	for _, need := range require {
		if classes[need] == 0 {
			o.SelfCheck = append(o.SelfCheck, "non-vacuity: outcome class never observed: "+need)
		}
	}
	if len(samples) == 0 {
		samples = append(samples, "no history beyond the seeds")
	}
	o.Coverage = map[string]interface{}{
		"states":                        states,
		"transitions":                   trans,
		"traces_validated_against_impl": trans,
		"legs_executed":                 legs,
		"exhaustive":                    exhaustive,
		"profiles":                      perProfile,
		"outcome_classes":               classes,
		"distinct_outcome_classes":      len(classes),
		"samples":                       samples,
		"explanation":                   "explicit-state BFS; every transition is one execution of the real ProcessBuiltinFunction (plus the driver's A1-A6 bookkeeping) compared with the reference ledger, so traces_validated_against_impl == transitions by construction",
	}
	o.Violations = append(o.Violations, PendingViolations[property]...)
	for k, v := range PendingCoverage[property] {
		o.Coverage[k] = v
	}
	return Finish(o)
}

// threeShardProfile: the transfer menu over three shards (senders and destinations on every
// shard, a third party in the third shard), one level shallower than the two-shard search.
func threeShardProfile(tier Tier, oracles []explore.Oracle) *explore.Profile {
	o := menuOpts{thorough: tier.Thorough(), shards: 3}
	depth := 2
	if tier.Thorough() {
		depth = 3
	}
	return &explore.Profile{
		Name: "transfer-3-shards", EnvCfg: ledgerEnv(3), Depth: depth, Deadline: tierDeadline(tier), Oracles: oracles,
		Seeds: func(env *world.Env) []explore.SeedState {
			var out []explore.SeedState
			for _, n := range []string{"mixed", "refunds"} {
				b := uni.SeedBuilder(env, n)
				// the third party e2 (shard 2) holds both kinds as well
				b.Must(uni.Call(uni.A0, uni.A0, vmcommon.BuiltInFunctionESDTLocalMint, uni.F, uni.Big(4)))
				b.Must(uni.ESDTTransfer(uni.A0, uni.E2, uni.F, 2)).DeliverAll()
				b.Must(uni.NFTTransfer(uni.A0, uni.E2, uni.S, 1, 1)).DeliverAll()
				out = append(out, explore.SeedState{Name: n + "+e2", W: b.W, Legs: b.Legs, Failed: b.Failed})
			}
			return out
		},
		Menu: func(w *world.World) []world.Action {
			acts := transferMenu(w, o)
			acts = append(acts, deliveries(w)...)
			acts = append(acts, freezeMenu(w, o, false)...)
			return acts
		},
	}
}

func c01Profiles(tier Tier) []*explore.Profile {
	p := transferProfile(tier)
	p.Oracles = []explore.Oracle{&conservationOracle{property: "C01"}}
	return []*explore.Profile{p, threeShardProfile(tier, p.Oracles), wideTransfersProfile(tier, p.Oracles), highNonceProfile("high-nonce", tier, p.Oracles, 3)}
}

func init() { LedgerProfiles["C01"] = c01Profiles }

// C01 decides "transfers conserve tokens".
func C01(tier Tier) int {
	return RunLedger("C01", tier, c01Profiles(tier), []string{"high-nonce-reached",
		"delivered:ESDTTransfer:k1-fungible", "delivered:ESDTNFTTransfer:k1-nft", "delivered:MultiESDTNFTTransfer:k1-fungible",
		"delivered:MultiESDTNFTTransfer:k1-nft", "delivered:MultiESDTNFTTransfer:k2-mixed",
		"refund-delivered:ESDTTransfer", "delivery-refused-legitimately",
		"delivered:MultiESDTNFTTransfer:k256-fungible", "delivered:MultiESDTNFTTransfer:k257-mixed", "delivered:MultiESDTNFTTransfer:k300-nft",
	})
}

// compressDepths renders the per-depth counts; the scripted prefix of a scripted profile (one new
// state per level) is summarised.
func compressDepths(d []int64) interface{} {
	if len(d) <= 40 {
		return d
	}
	i := 0
	for i < len(d) && d[i] == 1 {
		i++
	}
	return map[string]interface{}{"scripted_levels_with_one_new_state": i, "then": d[i:]}
}
