package checks

import (
	"fmt"
	"time"

	vmcommon "github.com/ElrondNetwork/elrond-vm-common"

	"verif/engine/uni"
	"verif/engine/world"
)

// faultFilter selects the dependency calls C17 quantifies over: everything except storage reads
// and the pause lookup (load of the system account outside ESDTPause/ESDTUnPause).
func faultFilter(fn string) func(d world.Dep) bool {
	pauseFn := fn == vmcommon.BuiltInFunctionESDTPause || fn == vmcommon.BuiltInFunctionESDTUnPause
	return func(d world.Dep) bool {
		if d.Kind == "RetrieveValue" {
			return false
		}
		if d.Kind == "LoadAccount" && d.Detail == string(vmcommon.SystemAccountAddress) && !pauseFn {
			return false
		}
		return true
	}
}

// C17 decides "a failing dependency is never reported as success" (engine E3).
func C17(tier Tier) int {
	start := time.Now()
	const P = "C17"
	env, err := world.NewEnv(ledgerEnv(2))
	if err != nil {
		panic(err)
	}
	cat := Catalogue(env)
	o := &Outcome{Property: P, Tier: tier, Level: "fault_enumeration", Start: start,
		Assumptions: append(append([]string{}, LedgerAssumptions...), "fail-soft by interface design and excluded: RetrieveValue, and the pause lookup (LoadAccount of the system account outside ESDTPause/ESDTUnPause)",
			"single fault per execution: a second fault can only occur after the call has already returned the first error")}
	o.SelfCheck = append(o.SelfCheck, CheckCatalogue(env, cat)...)
	e := NewEnum()
	kinds := map[string]int{}
	points := 0
	for _, c := range cat {
		env.FailKind = faultFilter(c.Func)
		env.FailAt = 0
		env.KeepDeps = true
		env.ResetDeps()
		_, legs := env.Step(c.W, c.Act)
		if len(legs) == 0 || !legs[0].OK() {
			continue
		}
		var counted []world.Dep
		for _, d := range legs[0].Deps {
			if env.FailKind(d) {
				counted = append(counted, d)
			}
		}
		ord := map[string]int{}
		for k := 1; k <= len(counted); k++ {
			d := counted[k-1]
			ord[d.Kind]++
			kinds[d.Kind]++
			points++
			env.ResetDeps()
			env.FailAt = k
			_, flegs := env.Step(c.W, c.Act)
			env.FailAt = 0
			l := flegs[0]
			site := fmt.Sprintf("%s:%s#%d", c.Name, d.Kind, ord[d.Kind])
			switch {
			case l.Panic != nil:
				e.Fail(P, "fault", site+":panic", fmt.Sprintf("class %s: with dependency call %d (%s) failing the function panicked: %v", c.Name, k, d.Kind, l.Panic), "fault", map[string]interface{}{"class": c.Name, "k": k})
				e.Case("fault:panic")
			case l.OK():
				e.Fail(P, "fault", site+":reported-ok", fmt.Sprintf("class %s: dependency call %d of %d (%s %s) failed, yet %s returned Ok", c.Name, k, len(counted), d.Kind, uni.Name([]byte(d.Detail)), l.Func), "fault", map[string]interface{}{"class": c.Name, "k": k})
				e.Case("fault:ok")
			case l.Out != nil:
				e.Fail(P, "fault", site+":output-and-error", fmt.Sprintf("class %s: error returned together with an output", c.Name), "fault", map[string]interface{}{"class": c.Name, "k": k})
				e.Case("fault:both")
			default:
				e.Case("fault:error-returned:" + c.Func + ":" + d.Kind)
			}
		}
		if len(e.Samples) < 6 {
			var ks []string
			for _, d := range counted {
				ks = append(ks, d.Kind)
			}
			e.Sample(map[string]interface{}{"class": c.Name, "call": DescribeAction(c.Act), "fault_points": ks})
		}
	}
	env.FailKind, env.KeepDeps = nil, false
	for _, k := range []string{"SaveKeyValue", "LoadAccount", "SaveAccount", "Marshal", "Unmarshal", "IsPayable", "AddToBalance", "ChangeOwnerAddress", "ClaimDeveloperRewards"} {
		if kinds[k] == 0 {
			o.SelfCheck = append(o.SelfCheck, "no fault point of kind "+k)
		}
	}
	o.Violations = e.Viols
	o.Coverage = map[string]interface{}{
		"evaluations":          e.Evals,
		"distinct_nontrivial":  len(e.Distinct),
		"rule":                 "for every successful transition class of the catalogue (23 functions x side x same/cross-shard x with/without attached call x refunds) the dependency trace t1..tN of the call is recorded through the environment's single choke point, then the call is re-executed N times with the k-th call failing; a case is distinct by (function, dependency kind) and non-trivial when the fault was actually injected (the k-th call happened)",
		"samples":              e.Samples,
		"scenarios":            len(cat),
		"fault_points":         points,
		"fault_points_by_kind": kinds,
		"exhaustive":           true,
		"observation_classes":  e.Distinct,
	}
	return Finish(o)
}

func init() {
	Replayers["fault"] = func(property, sig string, payload []byte) int { return rerunCheck(property, sig) }
	Replayers["case"] = func(property, sig string, payload []byte) int { return rerunCheck(property, sig) }
}
