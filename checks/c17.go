package checks

import (
	"fmt"
	"strings"
	"time"

	vmcommon "github.com/ElrondNetwork/elrond-vm-common"

	"verif/engine/explore"
	"verif/engine/uni"
	"verif/engine/world"
)

// faultFilter selects the dependency calls C17 quantifies over: everything except storage reads
// and the pause lookup (load of the system account outside ESDTPause/ESDTUnPause).
func faultFilter(fn string) func(d world.Dep) bool {
	pauseFn := fn == vmcommon.BuiltInFunctionESDTPause || fn == vmcommon.BuiltInFunctionESDTUnPause
	return func(d world.Dep) bool {
		if d.Kind == "RetrieveValue" {
			return false
		}
		if d.Kind == "LoadAccount" && d.Detail == string(vmcommon.SystemAccountAddress) && !pauseFn {
			return false
		}
		return true
	}
}

// C17 decides "a failing dependency is never reported as success" (engine E3).
func C17(tier Tier) int {
	start := time.Now()
	const P = "C17"
	env, err := world.NewEnv(ledgerEnv(2))
	if err != nil {
		panic(err)
	}
	cat := Catalogue(env)
	o := &Outcome{Property: P, Tier: tier, Level: "fault_enumeration", Start: start,
		Assumptions: append(append([]string{}, LedgerAssumptions...), "fail-soft by interface design and excluded: RetrieveValue, and the pause lookup (LoadAccount of the system account outside ESDTPause/ESDTUnPause)",
			"single fault per execution: a second fault can only occur after the call has already returned the first error")}
	o.SelfCheck = append(o.SelfCheck, CheckCatalogue(env, cat)...)
	e := NewEnum()
	kinds := map[string]int{}
	points := 0
	for _, c := range cat {
		env.FailKind = faultFilter(c.Func)
		env.FailAt = 0
		env.KeepDeps = true
		env.ResetDeps()
		_, legs := env.Step(c.W, c.Act)
		if len(legs) == 0 || !legs[0].OK() {
			continue
		}
		var counted []world.Dep
		for _, d := range legs[0].Deps {
			if env.FailKind(d) {
				counted = append(counted, d)
			}
		}
		ord := map[string]int{}
		for k := 1; k <= len(counted); k++ {
			d := counted[k-1]
			ord[d.Kind]++
			kinds[d.Kind]++
			points++
			env.ResetDeps()
			env.FailAt = k
			_, flegs := env.Step(c.W, c.Act)
			env.FailAt = 0
			l := flegs[0]
			site := fmt.Sprintf("%s:%s#%d", c.Name, d.Kind, ord[d.Kind])
			switch {
			case l.Panic != nil:
				e.Fail(P, "fault", site+":panic", fmt.Sprintf("class %s: with dependency call %d (%s) failing the function panicked: %v", c.Name, k, d.Kind, l.Panic), "fault", map[string]interface{}{"class": c.Name, "k": k})
				e.Case("fault:panic")
			case l.OK():
				e.Fail(P, "fault", site+":reported-ok", fmt.Sprintf("class %s: dependency call %d of %d (%s %s) failed, yet %s returned Ok", c.Name, k, len(counted), d.Kind, uni.Name([]byte(d.Detail)), l.Func), "fault", map[string]interface{}{"class": c.Name, "k": k})
				e.Case("fault:ok")
			case l.Err == nil:
				// neither Ok nor an error (a nil output with a nil error, or an output with another
				// return code and no error): the caller is not told to roll back
				e.Fail(P, "fault", site+":no-error-reported", fmt.Sprintf("class %s: dependency call %d of %d (%s %s) failed, yet %s returned no error (output nil: %v)", c.Name, k, len(counted), d.Kind, uni.Name([]byte(d.Detail)), l.Func, l.Out == nil), "fault", map[string]interface{}{"class": c.Name, "k": k})
				e.Case("fault:no-error")
			case l.Out != nil:
				e.Fail(P, "fault", site+":output-and-error", fmt.Sprintf("class %s: error returned together with an output", c.Name), "fault", map[string]interface{}{"class": c.Name, "k": k})
				e.Case("fault:both")
			default:
				e.Case("fault:error-returned:" + c.Func + ":" + d.Kind)
			}
		}
		if len(e.Samples) < 6 {
			var ks []string
			for _, d := range counted {
				ks = append(ks, d.Kind)
			}
			e.Sample(map[string]interface{}{"class": c.Name, "call": DescribeAction(c.Act), "fault_points": ks})
		}
	}
	env.FailKind, env.KeepDeps = nil, false
	// the same enumeration along histories: every successful transition of a search over the whole
	// menu is re-executed once per dependency call with that call failing
	hist := c17HistProfile(tier)
	depth := hist.Depth
	var histStates, histTrans int64
	histExhaustive := true
	if r, err := explore.Run(hist); err != nil {
		o.SelfCheck = append(o.SelfCheck, "profile fault-histories: "+err.Error())
	} else {
		histStates, histTrans, histExhaustive = r.States, r.Transitions, r.Exhaustive
		for _, v := range FromExplore(r.Violations) {
			e.Viols = append(e.Viols, v)
		}
		for cls, n := range r.Classes {
			if strings.HasPrefix(cls, "fault-point:") {
				kinds[strings.TrimPrefix(cls, "fault-point:")+"(histories)"] += int(n)
				points += int(n)
			}
			if strings.HasPrefix(cls, "fault:") {
				e.Distinct[cls+"(histories)"] += n
			}
		}
		for _, sf := range r.SeedFailures {
			o.SelfCheck = append(o.SelfCheck, "profile fault-histories: seed "+sf)
		}
	}
	for _, k := range []string{"SaveKeyValue", "LoadAccount", "SaveAccount", "Marshal", "Unmarshal", "IsPayable", "AddToBalance", "ChangeOwnerAddress", "ClaimDeveloperRewards"} {
		if kinds[k] == 0 {
			o.SelfCheck = append(o.SelfCheck, "no fault point of kind "+k)
		}
	}
	o.Violations = e.Viols
	o.Coverage = map[string]interface{}{
		"evaluations":          e.Evals,
		"distinct_nontrivial":  len(e.Distinct),
		"rule":                 "for every successful transition class of the catalogue (23 functions x side x same/cross-shard x with/without attached call x refunds) the dependency trace t1..tN of the call is recorded through the environment's single choke point, then the call is re-executed N times with the k-th call failing; a case is distinct by (function, dependency kind) and non-trivial when the fault was actually injected (the k-th call happened)",
		"samples":              e.Samples,
		"scenarios":            len(cat),
		"fault_points":         points,
		"fault_points_by_kind": kinds,
		"exhaustive":           histExhaustive,
		"observation_classes":  e.Distinct,
		"history_search":       map[string]interface{}{"states": histStates, "transitions": histTrans, "depth": depth, "exhaustive_within_bound": histExhaustive},
	}
	return Finish(o)
}

func c17HistProfile(tier Tier) *explore.Profile {
	depth := 2
	if tier.Thorough() {
		depth = 3
	}
	mo := menuOpts{thorough: tier.Thorough(), shards: 2, undisciplined: true}
	return &explore.Profile{
		Name: "fault-histories", EnvCfg: ledgerEnv(2), Seeds: seedsOf("mixed", "frozen", "handover", "refunds", "refunds-with-call"), Depth: depth, Deadline: tierDeadline(tier), WithGhost: true,
		Menu: func(w *world.World) []world.Action {
			acts := wholeMenu(w, mo)
			acts = append(acts, transferMenu(w, menuOpts{shards: 2})...)
			return acts
		},
		PostStep: faultHook("C17"),
	}
}

// faultHook re-executes every successful transition once per counted dependency call of its first
// execution, with that call failing.
func faultHook(property string) func(c *explore.Ctx, pre *world.World, act world.Action, post *world.World, legs []*world.Leg) {
	return func(c *explore.Ctx, pre *world.World, act world.Action, post *world.World, legs []*world.Leg) {
		if len(legs) == 0 || !legs[0].OK() || legs[0].Input == nil {
			return
		}
		env := c.Env
		fn := legs[0].Func
		env.FailKind = faultFilter(fn)
		env.FailAt = 0
		env.KeepDeps = true
		env.ResetDeps()
		_, l0 := env.Step(pre, act)
		env.KeepDeps = false
		defer func() {
			env.FailKind, env.FailAt = nil, 0
			env.ResetDeps()
		}()
		if len(l0) == 0 || !l0[0].OK() {
			return
		}
		var counted []world.Dep
		for _, d := range l0[0].Deps {
			if env.FailKind(d) {
				counted = append(counted, d)
			}
		}
		ord := map[string]int{}
		for k := 1; k <= len(counted); k++ {
			d := counted[k-1]
			ord[d.Kind]++
			env.ResetDeps()
			env.FailAt = k
			_, fl := env.Step(pre, act)
			env.FailAt = 0
			if len(fl) == 0 {
				continue
			}
			l := fl[0]
			site := fmt.Sprintf("%s:%s:%s#%d", fn, sideOf(legs[0]), d.Kind, ord[d.Kind])
			c.Class("fault-point:" + d.Kind)
			switch {
			case l.Panic != nil:
				c.Report(property, "fault", site+":panic", fmt.Sprintf("%s: with dependency call %d (%s) failing the function panicked: %v", DescribeAction(act), k, d.Kind, l.Panic))
			case l.OK():
				c.Report(property, "fault", site+":reported-ok", fmt.Sprintf("%s: dependency call %d of %d (%s %s) failed, yet %s returned Ok", DescribeAction(act), k, len(counted), d.Kind, uni.Name([]byte(d.Detail)), fn))
			case l.Err == nil:
				c.Report(property, "fault", site+":no-error-reported", fmt.Sprintf("%s: dependency call %d of %d (%s %s) failed, yet %s returned no error (output nil: %v)", DescribeAction(act), k, len(counted), d.Kind, uni.Name([]byte(d.Detail)), fn, l.Out == nil))
			case l.Out != nil:
				c.Report(property, "fault", site+":output-and-error", fmt.Sprintf("%s: error returned together with an output", DescribeAction(act)))
			default:
				c.Class("fault:error-returned:" + fn + ":" + d.Kind)
			}
		}
	}
}

func init() {
	LedgerProfiles["C17"] = func(tier Tier) []*explore.Profile { return []*explore.Profile{c17HistProfile(tier)} }
	Replayers["fault"] = func(property, sig string, payload []byte) int { return rerunCheck(property, sig) }
	Replayers["case"] = func(property, sig string, payload []byte) int { return rerunCheck(property, sig) }
}
