package checks

import (
	"fmt"
	"math/big"

	vmcommon "github.com/ElrondNetwork/elrond-vm-common"

	"verif/engine/explore"
	"verif/engine/spec"
	"verif/engine/uni"
	"verif/engine/world"
)

// ---------------------------------------------------------------------------------------------
// C09

var allCallTypes = []vmcommon.CallType{vmcommon.DirectCall, vmcommon.AsynchronousCall, vmcommon.AsynchronousCallBack, vmcommon.ESDTTransferAndExecute}

func payableMenu(w *world.World, o menuOpts) []world.Action {
	var acts []world.Action
	extras := [][][]byte{nil, {[]byte("f")}, {[]byte("f"), {7}}}
	dsts := [][]byte{uni.B0, uni.S0, uni.C1, uni.S1c}
	odd := [][]byte{uni.M, uni.B0[:31], append(append([]byte{}, uni.B0...), 0)}
	// an NFT of collection R created by the contract s0 itself comes back to it from c1
	if held(w, uni.C1, tR+spec.NonceSuffix(1)) > 0 {
		for _, to := range [][]byte{uni.S0, uni.S1c} {
			for _, ct := range allCallTypes {
				for _, ex := range extras {
					a := uni.NFTTransfer(uni.C1, to, uni.R, 1, 1, ex...)
					a.CallType = ct
					m := uni.Multi(uni.C1, to, []uni.Ent{{Tok: uni.R, Nonce: 1, Q: 1}}, ex...)
					m.CallType = ct
					acts = append(acts, a, m)
				}
			}
		}
	}
	for _, from := range [][]byte{uni.A0, uni.S0} {
		hasF := held(w, from, tF) > 0
		hasS := held(w, from, tS1) > 0
		var shapes [][]uni.Ent
		if hasF {
			shapes = append(shapes, []uni.Ent{{Tok: uni.F, Nonce: 0, Q: 1}})
		}
		if hasS {
			shapes = append(shapes, []uni.Ent{{Tok: uni.S, Nonce: 1, Q: 1}})
		}
		if hasF && hasS {
			shapes = append(shapes, []uni.Ent{{Tok: uni.F, Nonce: 0, Q: 1}, {Tok: uni.S, Nonce: 1, Q: 1}})
		}
		for _, to := range append(append([][]byte{}, dsts...), append(odd, from)...) {
			for _, ct := range allCallTypes {
				for _, ex := range extras {
					var batch []world.Action
					if hasF && len(to) == 32 {
						batch = append(batch, uni.ESDTTransfer(from, to, uni.F, 1, ex...))
					}
					if hasS {
						batch = append(batch, uni.NFTTransfer(from, to, uni.S, 1, 1, ex...))
					}
					for _, sh := range shapes {
						batch = append(batch, uni.Multi(from, to, sh, ex...))
					}
					for _, a := range batch {
						a.CallType = ct
						acts = append(acts, a)
						if ex == nil && (ct == vmcommon.AsynchronousCall || ct == vmcommon.DirectCall) {
							// locked gas and a call value are input fields that exempt from nothing
							l := a
							l.GasLocked = 1
							acts = append(acts, l)
							v := a
							v.Value = big.NewInt(1)
							acts = append(acts, v)
						}
					}
				}
			}
		}
	}
	// the system contract as caller (tokens handed out from the metachain), and two other metachain
	// contracts as callers - only the ESDT system contract itself is exempt
	payload := []byte{0x12, 0x02, 0x00, 0x01}
	if a := w.Get(uni.A0); a != nil {
		if raw, ok := a.Storage[spec.TokPrefix+tS1]; ok {
			payload = raw
		}
	}
	for _, caller := range [][]byte{uni.ESDT, uni.M2, uni.M} {
		for _, to := range dsts {
			for _, ex := range extras[:2] {
				for _, ct := range []vmcommon.CallType{vmcommon.DirectCall, vmcommon.AsynchronousCall} {
					batch := []world.Action{
						uni.Call(caller, to, vmcommon.BuiltInFunctionESDTTransfer, append([][]byte{uni.F, uni.Big(1)}, ex...)...),
						uni.Call(caller, to, vmcommon.BuiltInFunctionESDTNFTTransfer, append([][]byte{uni.S, uni.Big(1), uni.Big(1), payload}, ex...)...),
						uni.Call(caller, to, vmcommon.BuiltInFunctionMultiESDTNFTTransfer, append([][]byte{uni.Big(1), uni.F, uni.Big(0), uni.Big(1)}, ex...)...),
						uni.Call(caller, to, vmcommon.BuiltInFunctionMultiESDTNFTTransfer, append([][]byte{uni.Big(2), uni.F, uni.Big(0), uni.Big(1), uni.S, uni.Big(1), payload}, ex...)...),
					}
					for _, a := range batch {
						a.CallType = ct
						acts = append(acts, a)
					}
				}
			}
		}
	}
	acts = append(acts, deliveries(w)...)
	return acts
}

func c09Profiles(tier Tier) []*explore.Profile {
	o := menuOpts{thorough: tier.Thorough(), shards: 2}
	orc := []explore.Oracle{&payableOracle{property: "C09"}}
	depth := 2
	if tier.Thorough() {
		depth = 3
	}
	twice := ledgerEnv(2)
	twice.PayableHandlerTwice = true
	p := &explore.Profile{
		Name: "payable", EnvCfg: twice, Depth: depth, Deadline: tierDeadline(tier), Oracles: orc,
		Seeds: func(env *world.Env) []explore.SeedState {
			var out []explore.SeedState
			for _, ans := range []int8{world.PayYes, world.PayNo, world.PayError} {
				b := uni.SeedBuilder(env, "mixed")
				// the contract sender gets its tokens through exempt transfers
				b.Must(uni.ESDTTransfer(uni.A0, uni.S0, uni.F, 1, []byte("f")))
				b.Must(uni.NFTTransfer(uni.A0, uni.S0, uni.S, 1, 1, []byte("f")))
				// the contract s0 creates an NFT of its own collection R and sends pieces to c1
				b.Must(uni.SetRole(uni.S0, uni.R, uni.NFTRoles...))
				b.Must(uni.Create(uni.S0, uni.R, 3))
				b.Must(uni.NFTTransfer(uni.S0, uni.C1, uni.R, 1, 2)).DeliverAll()
				// a plain transfer of the contract s0 was refused on the other shard: its refund is in flight
				b.Must(uni.ESDTTransfer(uni.S0, uni.S1c, uni.F, 1))
				b.Refused(uni.Deliver(0))
				w := b.W.Clone()
				for _, d := range [][]byte{uni.B0, uni.S0, uni.C1, uni.S1c} {
					w.Payable[string(d)] = ans
				}
				out = append(out, explore.SeedState{Name: fmt.Sprintf("answer-%d", ans), W: w, Legs: b.Legs, Failed: b.Failed})
			}
			// per-address mixed table: users non-payable, contracts payable
			b := uni.SeedBuilder(env, "mixed")
			w := b.W.Clone()
			w.Payable[string(uni.B0)] = world.PayNo
			w.Payable[string(uni.C1)] = world.PayError
			w.Payable[string(uni.S0)] = world.PayYes
			w.Payable[string(uni.S1c)] = world.PayYes
			out = append(out, explore.SeedState{Name: "answer-mixed", W: w, Legs: b.Legs, Failed: b.Failed})
			return out
		},
		Menu: func(w *world.World) []world.Action { return payableMenu(w, o) },
	}
	// the same oracle rides on the transfer search with the realistic table
	t := transferProfile(tier)
	if !tier.Thorough() {
		t.Depth = 2
	}
	t.Oracles = orc
	return []*explore.Profile{p, t}
}

func init() { LedgerProfiles["C09"] = c09Profiles }

// C09 decides "tokens are only credited to admissible destinations".
func C09(tier Tier) int {
	req := []string{"credit:payable", "credit:non-payable+exempt", "credit:oracle-error+exempt", "credit:payable+exempt",
		"dest:MultiESDTNFTTransfer:err", "dest:ESDTNFTTransfer:err", "dest:ESDTTransfer:err", "sender:ESDTTransfer:err"}
	return RunLedger("C09", tier, c09Profiles(tier), req)
}

// ---------------------------------------------------------------------------------------------
// C10

func shapesMenu(w *world.World, o menuOpts) []world.Action {
	var acts []world.Action
	calls := [][][]byte{nil, {[]byte("f")}, {[]byte("fn_2"), {}}, {[]byte("f"), []byte("x"), {}}, {[]byte(""), []byte("x")}, {[]byte("")}}
	one := [][]byte{{1}, {0, 1}, {0, 0, 0, 0, 0, 0, 0, 0, 1}}
	for _, from := range [][]byte{uni.A0, uni.S0, uni.C1} {
		hasF := held(w, from, tF) > 0
		hasS := held(w, from, tS1) > 0
		for _, to := range [][]byte{uni.B0, uni.S0, uni.C1, uni.S1c} {
			if string(to) == string(from) {
				continue
			}
			for _, cs := range calls {
				for _, enc := range one {
					if hasF {
						acts = append(acts, uni.Call(from, to, vmcommon.BuiltInFunctionESDTTransfer, append([][]byte{uni.F, enc}, cs...)...))
						acts = append(acts, uni.Call(from, from, vmcommon.BuiltInFunctionMultiESDTNFTTransfer, append([][]byte{to, enc, uni.F, {}, enc}, cs...)...))
					}
					if hasS {
						acts = append(acts, uni.Call(from, from, vmcommon.BuiltInFunctionESDTNFTTransfer, append([][]byte{uni.S, enc, enc, to}, cs...)...))
						acts = append(acts, uni.Call(from, from, vmcommon.BuiltInFunctionMultiESDTNFTTransfer, append([][]byte{to, enc, uni.S, enc, enc}, cs...)...))
					}
					if hasF && hasS {
						acts = append(acts, uni.Call(from, from, vmcommon.BuiltInFunctionMultiESDTNFTTransfer, append([][]byte{to, {2}, uni.S, enc, enc, uni.F, {0}, enc}, cs...)...))
					}
					if hasF && len(enc) == 1 {
						// a count of k*2^64 + 1 (the function reads its low word)
						acts = append(acts, uni.Call(from, from, vmcommon.BuiltInFunctionMultiESDTNFTTransfer, append([][]byte{to, {1, 0, 0, 0, 0, 0, 0, 0, 1}, uni.F, {}, enc}, cs...)...))
					}
				}
			}
		}
	}
	// plain transfers (no attached call, so no gas travels with the tokens) under every call type,
	// to a user and to a non-payable contract of the other shard
	for _, ct := range []vmcommon.CallType{vmcommon.AsynchronousCall, vmcommon.AsynchronousCallBack, vmcommon.ESDTTransferAndExecute} {
		for _, to := range [][]byte{uni.C1, uni.S1c} {
			for _, from := range [][]byte{uni.A0, uni.S0} {
				var plain []world.Action
				if held(w, from, tF) > 0 {
					plain = append(plain, uni.ESDTTransfer(from, to, uni.F, 1), uni.Multi(from, to, []uni.Ent{{Tok: uni.F, Nonce: 0, Q: 1}}))
				}
				if held(w, from, tS1) > 0 {
					plain = append(plain, uni.NFTTransfer(from, to, uni.S, 1, 1), uni.Multi(from, to, []uni.Ent{{Tok: uni.S, Nonce: 1, Q: 1}}))
				}
				for _, a := range plain {
					a.CallType = ct
					acts = append(acts, a)
				}
			}
		}
	}
	acts = append(acts, deliveries(w)...)
	return acts
}

func c10Profiles(tier Tier) []*explore.Profile {
	o := menuOpts{thorough: tier.Thorough(), shards: 2}
	mk := func() []explore.Oracle { return []explore.Oracle{newMessageOracle("C10")} }
	t := transferProfile(tier)
	t.Oracles = mk()
	depth := 2
	if tier.Thorough() {
		depth = 3
	}
	shapes := &explore.Profile{
		Name: "shapes", EnvCfg: ledgerEnv(2), Depth: depth, Deadline: tierDeadline(tier), Oracles: mk(),
		Seeds: func(env *world.Env) []explore.SeedState {
			b := uni.SeedBuilder(env, "mixed")
			b.Must(uni.ESDTTransfer(uni.A0, uni.S0, uni.F, 1, []byte("f")))
			b.Must(uni.NFTTransfer(uni.A0, uni.S0, uni.S, 1, 1, []byte("f")))
			w := b.W.Clone()
			w.Payable[string(uni.S0)] = world.PayYes
			w.Payable[string(uni.S1c)] = world.PayYes
			return []explore.SeedState{{Name: "mixed+contract-holdings", W: w, Legs: b.Legs, Failed: b.Failed}}
		},
		Menu: func(w *world.World) []world.Action { return shapesMenu(w, o) },
	}
	// hand-over and SetUserName messages
	other := &explore.Profile{
		Name: "continuations", EnvCfg: ledgerEnv(2), Depth: 3, Deadline: tierDeadline(tier), Oracles: mk(),
		Seeds: func(env *world.Env) []explore.SeedState {
			out := seedsOf("sft", "handover")(env)
			// a create role that was never used: its hand-over ships the counter 0, i.e. an empty
			// last argument, which the next owner's shard has to accept
			b := uni.SeedBuilder(env, "sft")
			b.Must(uni.SetRole(uni.B0, uni.R, vmcommon.ESDTRoleNFTCreate))
			return append(out, explore.SeedState{Name: "sft+unused-create-role", W: b.W, Legs: b.Legs, Failed: b.Failed})
		},
		Menu: func(w *world.World) []world.Action {
			acts := handoverMenu(w, o, [][]byte{uni.S, uni.R})
			for _, a := range users(o) {
				acts = append(acts, uni.Create(a, uni.S, 1))
			}
			// a cross-shard SetUserName provided with exactly its price, one unit more and twice the
			// price: the message the sender shard emits has to be executable on the user's shard
			if price := world.DefaultSchedule()[vmcommon.BuiltInCostString]["SaveUserName"]; price > 0 {
				for _, g := range []uint64{price, price + 1, 2*price - 1, 2 * price} {
					a := uni.Call(uni.D0, uni.C1, vmcommon.BuiltInFunctionSetUserName, []byte("nm"))
					a.Gas = g
					acts = append(acts, a)
				}
			}
			for _, target := range [][]byte{uni.B0, uni.C1} {
				for _, c := range [][]byte{uni.D0, uni.A0} {
					acts = append(acts, uni.Call(c, target, vmcommon.BuiltInFunctionSetUserName, []byte("nm")))
					acts = append(acts, uni.Call(c, target, vmcommon.BuiltInFunctionSetUserName, []byte{}))
				}
			}
			for _, c := range [][]byte{uni.S0, uni.A0} {
				if held(w, c, tF) > 0 {
					acts = append(acts, uni.Call(c, uni.ESDT, vmcommon.BuiltInFunctionESDTBurn, uni.F, uni.Big(1)))
				}
			}
			acts = append(acts, deliveries(w)...)
			return acts
		},
	}
	return []*explore.Profile{t, shapes, other, threeShardProfile(tier, mk()), wideTransfersProfile(tier, mk()), highNonceProfile("high-nonce", tier, mk(), 2), highNonceProfileAt("high-nonce-256", tier, mk(), 2, 256)}
}

func init() { LedgerProfiles["C10"] = c10Profiles }

// C10 decides "cross-shard messages and the transfer parser agree with the ledger".
func C10(tier Tier) int {
	req := []string{"forward-checked:ESDTTransfer", "forward-checked:ESDTNFTTransfer", "forward-checked:MultiESDTNFTTransfer", "forward-checked:SetUserName",
		"handover-message-checked", "attached-call-checked:ESDTTransfer:sender", "attached-call-checked:ESDTTransfer:dest",
		"attached-call-checked:ESDTNFTTransfer:sender", "attached-call-checked:ESDTNFTTransfer:dest", "attached-call-checked:MultiESDTNFTTransfer:sender",
		"attached-call-checked:MultiESDTNFTTransfer:dest", "parser-agrees:ESDTTransfer:sender", "parser-agrees:ESDTTransfer:dest",
		"parser-agrees:ESDTNFTTransfer:sender", "parser-agrees:ESDTNFTTransfer:dest", "parser-agrees:MultiESDTNFTTransfer:sender", "parser-agrees:MultiESDTNFTTransfer:dest",
		"dest:SetUserName:ok", "dest:ESDTNFTCreateRoleTransfer:ok", "high-nonce-reached", "high-nonce-256-reached"}
	return RunLedger("C10", tier, c10Profiles(tier), req)
}

var _ = spec.TokPrefix
