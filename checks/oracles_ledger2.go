package checks

import (
	"bytes"
	"fmt"
	"math/big"
	"strings"

	vmcommon "github.com/ElrondNetwork/elrond-vm-common"
	"github.com/ElrondNetwork/elrond-vm-common/data/esdt"
	"github.com/ElrondNetwork/elrond-vm-common/parsers"

	"verif/engine/explore"
	"verif/engine/spec"
	"verif/engine/uni"
	"verif/engine/world"
)

// ---------------------------------------------------------------------------------------------
// C05 frame condition

type frameOracle struct{ property string }

func (o *frameOracle) State(c *explore.Ctx, w *world.World) {}

var accountLevel = map[string]bool{
	vmcommon.BuiltInFunctionChangeOwnerAddress: true, vmcommon.BuiltInFunctionClaimDeveloperRewards: true, vmcommon.BuiltInFunctionSetUserName: true,
}

// footprint computes, from the input alone, the accounts and keys a call may touch.
func footprint(leg *world.Leg) (accts map[string]bool, keys map[string]bool, fieldsOK map[string]bool) {
	in := leg.Input
	args := in.Arguments
	accts = map[string]bool{string(in.CallerAddr): true, string(in.RecipientAddr): true}
	keys = map[string]bool{}
	fieldsOK = map[string]bool{}
	tokKeys := func(tok string, nonces ...uint64) {
		keys[spec.TokPrefix+tok] = true
		for _, n := range nonces {
			keys[spec.TokPrefix+tok+spec.NonceSuffix(n)] = true
		}
	}
	arg := func(i int) []byte {
		if i < len(args) {
			return args[i]
		}
		return nil
	}
	switch leg.Func {
	case vmcommon.BuiltInFunctionESDTTransfer, vmcommon.BuiltInFunctionESDTBurn, vmcommon.BuiltInFunctionESDTLocalMint, vmcommon.BuiltInFunctionESDTLocalBurn,
		vmcommon.BuiltInFunctionESDTFreeze, vmcommon.BuiltInFunctionESDTUnFreeze, vmcommon.BuiltInFunctionESDTWipe:
		tokKeys(string(arg(0)))
	case vmcommon.BuiltInFunctionESDTPause, vmcommon.BuiltInFunctionESDTUnPause:
		tokKeys(string(arg(0)))
		accts[string(vmcommon.SystemAccountAddress)] = true
	case vmcommon.BuiltInFunctionSetESDTRole, vmcommon.BuiltInFunctionUnSetESDTRole:
		keys[spec.RolePrefix+string(arg(0))] = true
	case vmcommon.BuiltInFunctionESDTNFTCreateRoleTransfer:
		keys[spec.RolePrefix+string(arg(0))] = true
		keys[spec.NoncePrefix+string(arg(0))] = true
		if isSysCaller(leg) && len(arg(1)) == 32 {
			accts[string(arg(1))] = true
		}
	case vmcommon.BuiltInFunctionESDTNFTCreate:
		keys[spec.NoncePrefix+string(arg(0))] = true
		if leg.Out != nil && len(leg.Out.ReturnData) > 0 {
			keys[spec.TokPrefix+string(arg(0))+spec.NonceSuffix(spec.ArgUint64(leg.Out.ReturnData[0]))] = true
		}
	case vmcommon.BuiltInFunctionESDTNFTAddQuantity, vmcommon.BuiltInFunctionESDTNFTBurn, vmcommon.BuiltInFunctionESDTNFTAddURI, vmcommon.BuiltInFunctionESDTNFTUpdateAttributes:
		keys[spec.TokPrefix+string(arg(0))+spec.NonceSuffix(spec.ArgUint64(arg(1)))] = true
	case vmcommon.BuiltInFunctionESDTNFTTransfer, vmcommon.BuiltInFunctionMultiESDTNFTTransfer:
		if t, ok := spec.LegTransfer(leg); ok {
			accts[string(t.Dest)] = true
			for _, it := range t.Items {
				keys[spec.TokPrefix+it.Suffix()] = true
			}
		}
	case vmcommon.BuiltInFunctionSaveKeyValue:
		for i := 0; i+1 < len(args); i += 2 {
			keys[string(args[i])] = true
		}
	case vmcommon.BuiltInFunctionChangeOwnerAddress:
		fieldsOK["owner"] = true
	case vmcommon.BuiltInFunctionClaimDeveloperRewards:
		fieldsOK["devReward"] = true
		fieldsOK["balance"] = true
	case vmcommon.BuiltInFunctionSetUserName:
		fieldsOK["userName"] = true
	}
	return
}

func (o *frameOracle) Leg(c *explore.Ctx, leg *world.Leg) {
	if leg.Pre == leg.Post || leg.Input == nil {
		return
	}
	p := o.property
	keys, fields := diffWorlds(leg.Pre, leg.Post)
	if !leg.OK() {
		if len(keys)+len(fields) > 0 {
			c.Report(p, "frame", leg.Func+":failed-call-changed-state", "a failed call left changes behind (harness rollback broken)")
		}
		return
	}
	accts, fkeys, fieldsOK := footprint(leg)
	for _, k := range keys {
		sysAcc := spec.IsSystemAccount(k.Addr)
		if k.Shard != leg.Shard {
			c.Report(p, "frame", leg.Func+":other-shard", fmt.Sprintf("%s executed on shard %d changed %s on shard %d", leg.Func, leg.Shard, uni.Name(k.Addr), k.Shard))
			continue
		}
		if !accts[string(k.Addr)] {
			c.Report(p, "frame", leg.Func+":foreign-account", fmt.Sprintf("%s (caller %s, recipient %s) changed key %q of %s", leg.Func, uni.Name(leg.Input.CallerAddr), uni.Name(leg.Input.RecipientAddr), k.Key, uni.Name(k.Addr)))
			continue
		}
		if sysAcc && !(leg.Func == vmcommon.BuiltInFunctionESDTPause || leg.Func == vmcommon.BuiltInFunctionESDTUnPause) {
			c.Report(p, "frame", leg.Func+":system-account", fmt.Sprintf("%s changed the system account key %q", leg.Func, k.Key))
			continue
		}
		if !fkeys[k.Key] {
			c.Report(p, "frame", leg.Func+":foreign-key", fmt.Sprintf("%s changed key %q of %s, outside the entries of the tokens named in its input", leg.Func, k.Key, uni.Name(k.Addr)))
			continue
		}
		// the entry of a fresh nonce does not exist before the creation: an existing entry under that
		// key belongs to another (token, nonce) pair whose key has the same bytes
		if leg.Func == vmcommon.BuiltInFunctionESDTNFTCreate && strings.HasPrefix(k.Key, spec.TokPrefix) && len(k.Pre) > 0 {
			c.Report(p, "frame", leg.Func+":existing-entry-overwritten", fmt.Sprintf("ESDTNFTCreate of %q wrote over the existing entry %q of %s (the entry of another token whose key has the same bytes)", leg.Input.Arguments[0], k.Key, uni.Name(k.Addr)))
			continue
		}
		c.Class("key-change-in-footprint:" + leg.Func)
	}
	for _, f := range fields {
		if !accts[string(f.Addr)] || !fieldsOK[f.Field] || f.Shard != leg.Shard {
			c.Report(p, "frame", leg.Func+":field-"+f.Field, fmt.Sprintf("%s changed field %s of %s", leg.Func, f.Field, uni.Name(f.Addr)))
		} else {
			c.Class("field-change-in-footprint:" + leg.Func)
		}
	}
	if leg.Func == vmcommon.BuiltInFunctionSaveKeyValue {
		o.checkKV(c, leg, keys)
	}
}

// checkKV: SaveKeyValue writes exactly the listed pairs, never under the protected prefix, only
// for a non-contract account writing to itself.
func (o *frameOracle) checkKV(c *explore.Ctx, leg *world.Leg, keys []keyChange) {
	p := o.property
	in := leg.Input
	if !bytes.Equal(in.CallerAddr, in.RecipientAddr) {
		c.Report(p, "kv", "accepted-for-other-account", fmt.Sprintf("SaveKeyValue by %s on %s accepted", uni.Name(in.CallerAddr), uni.Name(in.RecipientAddr)))
	}
	if vmcommon.IsSmartContractAddress(in.CallerAddr) {
		c.Report(p, "kv", "accepted-for-contract", "SaveKeyValue accepted for a contract account")
	}
	want := map[string][]byte{}
	acc := leg.Pre.Get(in.CallerAddr)
	if acc != nil {
		for k, v := range acc.Storage {
			want[k] = v
		}
	}
	for i := 0; i+1 < len(in.Arguments); i += 2 {
		k, v := string(in.Arguments[i]), in.Arguments[i+1]
		if strings.HasPrefix(k, vmcommon.ElrondProtectedKeyPrefix) {
			c.Report(p, "kv", "protected-key-accepted", fmt.Sprintf("SaveKeyValue accepted the protected key %q", k))
		}
		if len(v) == 0 {
			delete(want, k)
		} else {
			want[k] = v
		}
	}
	got := map[string][]byte{}
	if a := leg.Post.Get(in.CallerAddr); a != nil {
		got = a.Storage
	}
	same := len(got) == len(want)
	for k, v := range want {
		if !bytes.Equal(got[k], v) {
			same = false
		}
	}
	if !same {
		c.Report(p, "kv", "not-exactly-the-listed-pairs", fmt.Sprintf("storage after SaveKeyValue is not the old storage overwritten with the listed pairs (%d keys, expected %d)", len(got), len(want)))
	}
	for _, k := range keys {
		if strings.HasPrefix(k.Key, vmcommon.ElrondProtectedKeyPrefix) {
			c.Report(p, "kv", "protected-key-changed", fmt.Sprintf("SaveKeyValue changed the protected key %q", k.Key))
		}
	}
	c.Class("kv-accepted")
}

// ---------------------------------------------------------------------------------------------
// C08 metadata

type metaOracle struct{ property string }

func (o *metaOracle) State(c *explore.Ctx, w *world.World) {}

func beq(a, b []byte) bool { return len(a) == 0 && len(b) == 0 || bytes.Equal(a, b) }

func metaEq(a, b *esdt.MetaData) string {
	if a == nil || b == nil {
		if a == nil && b == nil {
			return ""
		}
		return "presence"
	}
	switch {
	case a.Nonce != b.Nonce:
		return "nonce"
	case !beq(a.Name, b.Name):
		return "name"
	case !beq(a.Creator, b.Creator):
		return "creator"
	case a.Royalties != b.Royalties:
		return "royalties"
	case !beq(a.Hash, b.Hash):
		return "hash"
	case !beq(a.Attributes, b.Attributes):
		return "attributes"
	}
	if len(a.URIs) != len(b.URIs) {
		return "uris"
	}
	for i := range a.URIs {
		if !beq(a.URIs[i], b.URIs[i]) {
			return "uris"
		}
	}
	return ""
}

func (o *metaOracle) Leg(c *explore.Ctx, leg *world.Leg) {
	if !leg.OK() || leg.Input == nil {
		return
	}
	p := o.property
	in := leg.Input
	args := in.Arguments
	switch leg.Func {
	case vmcommon.BuiltInFunctionESDTNFTCreate:
		if len(args) < 7 || len(leg.Out.ReturnData) == 0 {
			return
		}
		n := spec.ArgUint64(leg.Out.ReturnData[0])
		e := spec.Entry(leg.Post.Get(in.CallerAddr), string(args[0])+spec.NonceSuffix(n))
		if e == nil || e.TokenMetaData == nil {
			c.Report(p, "create", "no-metadata-stored", "ESDTNFTCreate stored no metadata")
			return
		}
		roy := spec.ArgBig(args[3])
		want := &esdt.MetaData{Nonce: n, Name: args[2], Creator: in.CallerAddr, Royalties: e.TokenMetaData.Royalties, Hash: args[4], Attributes: args[5], URIs: args[6:]}
		if f := metaEq(e.TokenMetaData, want); f != "" {
			c.Report(p, "create", "stored-metadata-differs:"+f, fmt.Sprintf("metadata stored by ESDTNFTCreate differs from the input in field %s", f))
		}
		if e.TokenMetaData.Royalties > vmcommon.MaxRoyalty {
			c.Report(p, "create", "royalties-above-max", fmt.Sprintf("stored royalties %d", e.TokenMetaData.Royalties))
		}
		if roy.Cmp(big.NewInt(int64(vmcommon.MaxRoyalty))) <= 0 && uint64(e.TokenMetaData.Royalties) != roy.Uint64() {
			c.Report(p, "create", "royalties-differ", fmt.Sprintf("input royalties %s stored as %d", roy, e.TokenMetaData.Royalties))
		}
		raw := leg.Post.Get(in.CallerAddr).Storage[spec.TokPrefix+string(args[0])+spec.NonceSuffix(n)]
		okTopic := false
		for _, l := range leg.Out.Logs {
			if l != nil && len(l.Topics) > 0 && bytes.Equal(l.Topics[len(l.Topics)-1], raw) {
				okTopic = true
			}
		}
		if !okTopic {
			c.Report(p, "create", "log-topic", "the ESDTNFTCreate log does not carry the stored bytes")
		}
		c.Class("create-metadata-checked")
		return
	case vmcommon.BuiltInFunctionESDTNFTAddURI, vmcommon.BuiltInFunctionESDTNFTUpdateAttributes:
		if len(args) < 3 {
			return
		}
		suffix := string(args[0]) + spec.NonceSuffix(spec.ArgUint64(args[1]))
		pre, post := spec.Entry(leg.Pre.Get(in.CallerAddr), suffix), spec.Entry(leg.Post.Get(in.CallerAddr), suffix)
		if pre == nil || post == nil || pre.TokenMetaData == nil || post.TokenMetaData == nil {
			c.Report(p, "update", leg.Func+":absent-holding", fmt.Sprintf("%s succeeded on a holding that is absent before or after", leg.Func))
			return
		}
		want := *pre.TokenMetaData
		if leg.Func == vmcommon.BuiltInFunctionESDTNFTAddURI {
			want.URIs = append(append([][]byte{}, pre.TokenMetaData.URIs...), args[2:]...)
		} else {
			want.Attributes = args[2]
		}
		if f := metaEq(post.TokenMetaData, &want); f != "" {
			c.Report(p, "update", leg.Func+":"+f, fmt.Sprintf("%s: metadata after the call differs from the expected one in field %s", leg.Func, f))
		}
		if pre.Value.Cmp(post.Value) != 0 || pre.Type != post.Type || !beq(pre.Properties, post.Properties) || !beq(pre.Reserved, post.Reserved) {
			c.Report(p, "update", leg.Func+":other-field", fmt.Sprintf("%s changed something besides the metadata", leg.Func))
		}
		keys, _ := diffWorlds(leg.Pre, leg.Post)
		for _, k := range keys {
			if !(bytes.Equal(k.Addr, in.CallerAddr) && k.Key == spec.TokPrefix+suffix) {
				c.Report(p, "update", leg.Func+":other-entry", fmt.Sprintf("%s changed %q of %s", leg.Func, k.Key, uni.Name(k.Addr)))
			}
		}
		c.Class("metadata-update-checked:" + leg.Func)
		return
	}
	if leg.Pre == leg.Post {
		return
	}
	// every other function: existing metadata never changes; new entries copy their source
	keys, _ := diffWorlds(leg.Pre, leg.Post)
	var t *spec.Transfer
	if world.TransferFuncs[leg.Func] {
		t, _ = spec.LegTransfer(leg)
	}
	for _, k := range keys {
		if !strings.HasPrefix(k.Key, spec.TokPrefix) || spec.IsSystemAccount(k.Addr) || k.Post == nil {
			continue
		}
		post, err := spec.DecodeToken(k.Post)
		if err != nil {
			continue
		}
		if k.Pre != nil {
			pre, err := spec.DecodeToken(k.Pre)
			if err != nil {
				continue
			}
			// merging into the destination's existing holding: the arriving metadata must arrive
			// unchanged (two holdings of one SFT can legitimately differ after an update by one
			// holder; which version the merged holding keeps is then the arriving one) and a
			// different hash under the same key must have been refused
			if t != nil && bytes.Equal(k.Addr, t.Dest) && !(t.Sender && bytes.Equal(k.Addr, leg.Input.CallerAddr)) {
				if src := o.source(leg, t, k.Key[len(spec.TokPrefix):]); src != nil {
					if pre.TokenMetaData != nil && !beq(src.Hash, pre.TokenMetaData.Hash) {
						c.Report(p, "hash", fmt.Sprintf("%s:%s:hash-mismatch-accepted", leg.Func, sideOf(leg)),
							fmt.Sprintf("%s merged an NFT with hash %x into %s's holding with hash %x", leg.Func, src.Hash, uni.Name(k.Addr), pre.TokenMetaData.Hash))
					}
					if f := metaEq(src, post.TokenMetaData); f != "" {
						c.Report(p, "intact", fmt.Sprintf("%s:%s:merged-entry:%s", leg.Func, sideOf(leg), f),
							fmt.Sprintf("%s merged into %s's entry %x but the arriving metadata differs from what is stored afterwards in field %s", leg.Func, uni.Name(k.Addr), k.Key[len(spec.TokPrefix):], f))
					} else {
						c.Class("hop-metadata-intact:" + leg.Func + ":" + sideOf(leg) + ":merge")
					}
					continue
				}
			}
			if f := metaEq(pre.TokenMetaData, post.TokenMetaData); f != "" {
				c.Report(p, "intact", fmt.Sprintf("%s:%s:existing-entry:%s", leg.Func, sideOf(leg), f),
					fmt.Sprintf("%s changed field %s of the metadata of %s's existing entry %x", leg.Func, f, uni.Name(k.Addr), k.Key[len(spec.TokPrefix):]))
			}
			continue
		}
		if post.TokenMetaData == nil || t == nil {
			continue
		}
		src := o.source(leg, t, k.Key[len(spec.TokPrefix):])
		if src == nil {
			continue
		}
		if f := metaEq(src, post.TokenMetaData); f != "" {
			c.Report(p, "intact", fmt.Sprintf("%s:%s:new-entry:%s", leg.Func, sideOf(leg), f),
				fmt.Sprintf("%s created %s's entry %x whose metadata differs from the source in field %s", leg.Func, uni.Name(k.Addr), k.Key[len(spec.TokPrefix):], f))
		} else {
			c.Class("hop-metadata-intact:" + leg.Func + ":" + sideOf(leg))
		}
	}
	// cross-shard: the emitted payload carries the sender's metadata
	if t != nil && t.Sender {
		for _, m := range leg.Emitted {
			fn, margs, ok := spec.SplitData(m.Data)
			if !ok || fn != leg.Func {
				continue
			}
			mt, ok := spec.ParseTransfer(fn, m.From, m.To, margs, false)
			if !ok {
				continue
			}
			for _, it := range mt.Items {
				if it.Nonce == 0 {
					continue
				}
				pay, err := spec.DecodeToken(it.Payload)
				if err != nil {
					continue
				}
				src := spec.Entry(leg.Pre.Get(in.CallerAddr), it.Suffix())
				if src == nil {
					continue
				}
				if f := metaEq(src.TokenMetaData, pay.TokenMetaData); f != "" {
					c.Report(p, "intact", fmt.Sprintf("%s:sender:payload:%s", leg.Func, f), fmt.Sprintf("the cross-shard payload of %s differs from the sender's metadata in field %s", leg.Func, f))
				} else {
					c.Class("payload-metadata-intact:" + leg.Func)
				}
				if pay.Type != src.Type || !beq(pay.Reserved, src.Reserved) {
					c.Report(p, "intact", fmt.Sprintf("%s:sender:payload:type", leg.Func), "the cross-shard payload changed Type/Reserved of the entry")
				}
			}
		}
	}
}

// source returns the metadata a transfer leg moves under the given key suffix.
func (o *metaOracle) source(leg *world.Leg, t *spec.Transfer, suffix string) *esdt.MetaData {
	for _, it := range t.Items {
		if it.Suffix() != suffix || it.Nonce == 0 {
			continue
		}
		if t.Sender {
			if e := spec.Entry(leg.Pre.Get(leg.Input.CallerAddr), suffix); e != nil {
				return e.TokenMetaData
			}
			return nil
		}
		if pay, err := spec.DecodeToken(it.Payload); err == nil {
			return pay.TokenMetaData
		}
	}
	return nil
}

// ---------------------------------------------------------------------------------------------
// C10 messages and parser

type messageOracle struct {
	property         string
	enableNameChange bool
	transferParser   vmcommon.ESDTTransferParser
	realArgParser    interface {
		ParseData(string) (string, [][]byte, error)
	}
}

func newMessageOracle(property string) *messageOracle {
	tp, _ := parsers.NewESDTTransferParser(&world.ProtoMarshalizer{})
	return &messageOracle{property: property, transferParser: tp, realArgParser: parsers.NewCallArgsParser()}
}

func (o *messageOracle) State(c *explore.Ctx, w *world.World) {}

type expOut struct {
	To       []byte
	Fn       string
	Args     [][]byte
	Transfer *spec.Transfer // forwarded transfer: compare semantically
	Counter  *uint64        // hand-over: expected counter
}

func argsEq(a, b [][]byte) bool {
	if len(a) != len(b) {
		return false
	}
	for i := range a {
		if !beq(a[i], b[i]) {
			return false
		}
	}
	return true
}

func (o *messageOracle) expected(leg *world.Leg) (outs []expOut, known bool) {
	in := leg.Input
	args := in.Arguments
	isSC := vmcommon.IsSmartContractAddress
	switch leg.Func {
	case vmcommon.BuiltInFunctionESDTTransfer:
		if leg.DstLocal {
			if isSC(in.RecipientAddr) && len(args) > 2 {
				outs = append(outs, expOut{To: in.RecipientAddr, Fn: string(args[2]), Args: args[3:]})
			}
		} else if isSC(in.CallerAddr) {
			outs = append(outs, expOut{To: in.RecipientAddr, Fn: leg.Func, Args: args})
		}
		return outs, true
	case vmcommon.BuiltInFunctionESDTBurn:
		if isSC(in.CallerAddr) {
			outs = append(outs, expOut{To: in.RecipientAddr, Fn: leg.Func, Args: args})
		}
		return outs, true
	case vmcommon.BuiltInFunctionESDTNFTTransfer, vmcommon.BuiltInFunctionMultiESDTNFTTransfer:
		t, ok := spec.LegTransfer(leg)
		if !ok {
			return nil, false
		}
		destLocal := !t.Sender || leg.Pre.ShardOf(t.Dest) == leg.Shard
		if !destLocal {
			outs = append(outs, expOut{To: t.Dest, Fn: leg.Func, Transfer: t})
		} else if isSC(t.Dest) && t.HasCall {
			outs = append(outs, expOut{To: t.Dest, Fn: string(t.CallFn), Args: t.CallArgs})
		}
		return outs, true
	case vmcommon.BuiltInFunctionESDTNFTCreateRoleTransfer:
		if isSysCaller(leg) && len(args) == 2 {
			ctr := spec.Counter(leg.Pre.Get(in.RecipientAddr), string(args[0]))
			outs = append(outs, expOut{To: args[1], Fn: leg.Func, Args: [][]byte{args[0]}, Counter: &ctr})
		}
		return outs, true
	case vmcommon.BuiltInFunctionSetUserName:
		if !leg.DstLocal && len(args) == 1 {
			outs = append(outs, expOut{To: in.RecipientAddr, Fn: leg.Func, Args: args})
		}
		return outs, true
	}
	return nil, true
}

func (o *messageOracle) Leg(c *explore.Ctx, leg *world.Leg) {
	p := o.property
	in := leg.Input
	// (2) continuation of non-transfer built-in operations must be accepted
	if leg.Side == "dest" && !leg.Duplicate && !leg.OK() && leg.Delivered != nil && in != nil {
		switch leg.Func {
		case vmcommon.BuiltInFunctionESDTNFTCreateRoleTransfer:
			c.Report(p, "continuation", leg.Func+":refused", fmt.Sprintf("the hand-over message %s was refused by the destination shard: %v", shortData(leg.Delivered.Data), leg.Err))
		case vmcommon.BuiltInFunctionSetUserName:
			acc := leg.Pre.Get(in.RecipientAddr)
			if acc == nil || len(acc.UserName) == 0 || c.Env.Cfg.EnableUserNameChange {
				c.Report(p, "continuation", leg.Func+":refused", fmt.Sprintf("the SetUserName message was refused by the destination shard: %v", leg.Err))
			}
		}
	}
	if leg.Side == "dest" && leg.Unparsable && leg.Delivered != nil {
		c.Report(p, "emitted", "delivered-message-unparsable", fmt.Sprintf("in-flight message rejected by the call-arguments parser: %s", shortData(leg.Delivered.Data)))
	}
	if !leg.OK() || in == nil {
		return
	}
	// (1) every non-empty emitted data string parses into what was encoded
	exp, known := o.expected(leg)
	// an empty function name with no argument encodes to the empty string, i.e. "no data"
	kept := exp[:0]
	for _, e := range exp {
		if e.Fn == "" && len(e.Args) == 0 && e.Transfer == nil && e.Counter == nil {
			continue
		}
		kept = append(kept, e)
	}
	exp = kept
	var outs []world.Msg
	for _, m := range leg.Outs {
		if len(m.Data) > 0 {
			outs = append(outs, m)
		}
	}
	if known {
		if len(outs) != len(exp) {
			c.Report(p, "emitted", fmt.Sprintf("%s:%s:count", leg.Func, sideOf(leg)), fmt.Sprintf("%s emitted %d data-carrying transfers, the reference expects %d", leg.Func, len(outs), len(exp)))
		}
		for i := 0; i < len(outs) && i < len(exp); i++ {
			o.compare(c, leg, outs[i], exp[i])
		}
	}
	// (3) the transfer parser's report equals what the ledger moved
	if world.TransferFuncs[leg.Func] {
		o.parserVsLedger(c, leg)
	}
}

func (o *messageOracle) compare(c *explore.Ctx, leg *world.Leg, m world.Msg, e expOut) {
	p := o.property
	cls := fmt.Sprintf("%s:%s", leg.Func, sideOf(leg))
	if !bytes.Equal(m.To, e.To) {
		c.Report(p, "emitted", cls+":recipient", fmt.Sprintf("message addressed to %s, expected %s", uni.Name(m.To), uni.Name(e.To)))
	}
	fn, args, err := o.realArgParser.ParseData(string(m.Data))
	if err != nil {
		kind := "unparsable"
		if e.Fn == "" {
			kind = "empty-call-name"
		}
		c.Report(p, "emitted", cls+":"+kind, fmt.Sprintf("emitted data %q is rejected by the call-arguments parser (%v); encoded function %q with %d argument(s)", shortData(m.Data), err, e.Fn, len(e.Args)))
		return
	}
	if fn != e.Fn {
		c.Report(p, "emitted", cls+":function", fmt.Sprintf("emitted data parses to function %q, encoded %q", fn, e.Fn))
		return
	}
	switch {
	case e.Transfer != nil:
		mt, ok := spec.ParseTransfer(fn, m.From, m.To, args, false)
		if !ok {
			c.Report(p, "emitted", cls+":forward-unreadable", fmt.Sprintf("forwarded %s message cannot be read in the destination layout: %s", fn, shortData(m.Data)))
			return
		}
		bad := len(mt.Items) != len(e.Transfer.Items)
		for i := 0; !bad && i < len(mt.Items); i++ {
			a, b := mt.Items[i], e.Transfer.Items[i]
			if a.Tok != b.Tok || a.Nonce != b.Nonce || a.Qty.Cmp(b.Qty) != 0 {
				bad = true
			}
		}
		// the destination shard decides the payability exemption (callback, transfer-and-execute)
		// by the call type the message carries: a continuation has to carry the type of the call it
		// continues, or a transfer accepted on the sender shard is refused on arrival
		if m.CallType != leg.Input.CallType && !leg.Forwarded {
			c.Report(p, "continuation", cls+":call-type", fmt.Sprintf("the %s message emitted for a call of type %d carries call type %d: %s", fn, leg.Input.CallType, m.CallType, shortData(m.Data)))
		}
		if bad || mt.HasCall != e.Transfer.HasCall || !beq(mt.CallFn, e.Transfer.CallFn) || !argsEq(mt.CallArgs, e.Transfer.CallArgs) {
			c.Report(p, "emitted", cls+":forward-content", fmt.Sprintf("forwarded %s message does not carry the listed tokens / attached call: %s", fn, shortData(m.Data)))
		} else {
			c.Class("forward-checked:" + leg.Func)
		}
	case e.Counter != nil:
		if len(args) != 2 || !beq(args[0], e.Args[0]) || spec.ArgUint64(args[1]) != *e.Counter {
			c.Report(p, "emitted", cls+":handover-content", fmt.Sprintf("hand-over message %s does not carry token and counter %d", shortData(m.Data), *e.Counter))
		} else {
			c.Class("handover-message-checked")
		}
	default:
		if !argsEq(args, e.Args) {
			c.Report(p, "emitted", cls+":arguments", fmt.Sprintf("emitted data %s parses to %d argument(s) that differ from the %d encoded", shortData(m.Data), len(args), len(e.Args)))
		} else if fn == leg.Func {
			c.Class("forward-checked:" + leg.Func)
		} else {
			c.Class("attached-call-checked:" + leg.Func + ":" + sideOf(leg))
		}
	}
}

func (o *messageOracle) parserVsLedger(c *explore.Ctx, leg *world.Leg) {
	p := o.property
	in := leg.Input
	t, ok := spec.LegTransfer(leg)
	if !ok {
		return
	}
	cls := fmt.Sprintf("%s:%s:%s", leg.Func, sideOf(leg), itemClass(t))
	var res *vmcommon.ParsedESDTTransfers
	var err error
	func() {
		defer func() {
			if r := recover(); r != nil {
				err = fmt.Errorf("panic: %v", r)
			}
		}()
		res, err = o.transferParser.ParseESDTTransfers(in.CallerAddr, in.RecipientAddr, leg.Func, in.Arguments)
	}()
	if err != nil || res == nil {
		c.Report(p, "parser", cls+":rejects-accepted-call", fmt.Sprintf("ParseESDTTransfers fails (%v) on a call the built-in function accepted", err))
		return
	}
	if !bytes.Equal(res.RcvAddr, t.Dest) {
		c.Report(p, "parser", cls+":receiver", fmt.Sprintf("parser reports receiver %s, the ledger credited %s", uni.Name(res.RcvAddr), uni.Name(t.Dest)))
	}
	reported := map[string]*big.Int{}
	for _, tr := range res.ESDTTransfers {
		if tr == nil || tr.ESDTValue == nil {
			c.Report(p, "parser", cls+":nil-entry", "parser returned a nil transfer entry")
			return
		}
		spec.AddTo(reported, string(tr.ESDTTokenName)+spec.NonceSuffix(tr.ESDTTokenNonce), tr.ESDTValue)
	}
	d := spec.Delta(spec.Balances(leg.Pre), spec.Balances(leg.Post))
	moved := map[string]*big.Int{}
	self := bytes.Equal(in.CallerAddr, t.Dest)
	for k, v := range d {
		a, s := spec.SplitBalKey(k)
		if t.Sender && bytes.Equal(a, in.CallerAddr) && v.Sign() < 0 {
			spec.AddTo(moved, s, new(big.Int).Neg(v))
		}
		if !t.Sender && bytes.Equal(a, t.Dest) && v.Sign() > 0 {
			spec.AddTo(moved, s, v)
		}
	}
	if !self && !spec.EqualDelta(reported, moved) {
		c.Report(p, "parser", cls+":tokens", fmt.Sprintf("parser reports %s, the ledger moved %s", fmtSup(reported), fmtSup(moved)))
	} else if !self {
		c.Class("parser-agrees:" + leg.Func + ":" + sideOf(leg))
	}
	wantFn := ""
	var wantArgs [][]byte
	if t.HasCall {
		wantFn, wantArgs = string(t.CallFn), t.CallArgs
	}
	if res.CallFunction != wantFn || !argsEq(res.CallArgs, wantArgs) {
		c.Report(p, "parser", cls+":call", fmt.Sprintf("parser reports call %q with %d args, the call carries %q with %d args", res.CallFunction, len(res.CallArgs), wantFn, len(wantArgs)))
	}
	// the emitted contract call, when there is one, is the same call
	for _, m := range leg.LocalCalls {
		fn, args, err := o.realArgParser.ParseData(string(m.Data))
		if err == nil && (fn != res.CallFunction || !argsEq(args, res.CallArgs)) {
			c.Report(p, "parser", cls+":emitted-call", fmt.Sprintf("emitted contract call %s differs from the parser's report %q/%d args", shortData(m.Data), res.CallFunction, len(res.CallArgs)))
		}
	}
}
