package checks

import (
	"bytes"
	"fmt"
	"math/big"
	"sort"
	"strings"

	vmcommon "github.com/ElrondNetwork/elrond-vm-common"
	"github.com/ElrondNetwork/elrond-vm-common/data/esdt"

	"verif/engine/explore"
	"verif/engine/spec"
	"verif/engine/uni"
	"verif/engine/world"
)

// ---------------------------------------------------------------------------------------------
// world diffs

type keyChange struct {
	Addr  []byte
	Shard uint32
	Key   string
	Pre   []byte // nil = absent
	Post  []byte
}

type fieldChange struct {
	Addr  []byte
	Shard uint32
	Field string
}

// diffWorlds lists every storage key and account field that differs between pre and post.
func diffWorlds(pre, post *world.World) (keys []keyChange, fields []fieldChange) {
	for si := range post.Shards {
		ps, qs := pre.Shards[si].Accts, post.Shards[si].Accts
		seen := map[string]bool{}
		addrs := []string{}
		for k := range ps {
			if !seen[k] {
				seen[k] = true
				addrs = append(addrs, k)
			}
		}
		for k := range qs {
			if !seen[k] {
				seen[k] = true
				addrs = append(addrs, k)
			}
		}
		sort.Strings(addrs)
		for _, ak := range addrs {
			a, b := ps[ak], qs[ak]
			if a == nil {
				a = world.NewAccount([]byte(ak))
			}
			if b == nil {
				b = world.NewAccount([]byte(ak))
			}
			for k, v := range a.Storage {
				w, ok := b.Storage[k]
				if !ok {
					keys = append(keys, keyChange{Addr: a.Addr, Shard: uint32(si), Key: k, Pre: v})
				} else if !bytes.Equal(v, w) {
					keys = append(keys, keyChange{Addr: a.Addr, Shard: uint32(si), Key: k, Pre: v, Post: w})
				}
			}
			for k, w := range b.Storage {
				if _, ok := a.Storage[k]; !ok {
					keys = append(keys, keyChange{Addr: a.Addr, Shard: uint32(si), Key: k, Post: w})
				}
			}
			if a.Balance.Cmp(b.Balance) != 0 {
				fields = append(fields, fieldChange{a.Addr, uint32(si), "balance"})
			}
			if !bytes.Equal(a.Owner, b.Owner) {
				fields = append(fields, fieldChange{a.Addr, uint32(si), "owner"})
			}
			if !bytes.Equal(a.UserName, b.UserName) {
				fields = append(fields, fieldChange{a.Addr, uint32(si), "userName"})
			}
			if a.DevReward.Cmp(b.DevReward) != 0 {
				fields = append(fields, fieldChange{a.Addr, uint32(si), "devReward"})
			}
			if a.Nonce != b.Nonce {
				fields = append(fields, fieldChange{a.Addr, uint32(si), "nonce"})
			}
			if !bytes.Equal(a.CodeMetadata, b.CodeMetadata) {
				fields = append(fields, fieldChange{a.Addr, uint32(si), "codeMetadata"})
			}
		}
	}
	sort.Slice(keys, func(i, j int) bool {
		if c := bytes.Compare(keys[i].Addr, keys[j].Addr); c != 0 {
			return c < 0
		}
		return keys[i].Key < keys[j].Key
	})
	return
}

func frozenBit(raw []byte) bool {
	if raw == nil {
		return false
	}
	t, err := spec.DecodeToken(raw)
	if err != nil {
		return false
	}
	return len(t.Properties) == 2 && t.Properties[0]&1 != 0
}

var gatedRole = map[string]string{
	vmcommon.BuiltInFunctionESDTLocalMint:           vmcommon.ESDTRoleLocalMint,
	vmcommon.BuiltInFunctionESDTLocalBurn:           vmcommon.ESDTRoleLocalBurn,
	vmcommon.BuiltInFunctionESDTNFTCreate:           vmcommon.ESDTRoleNFTCreate,
	vmcommon.BuiltInFunctionESDTNFTAddQuantity:      vmcommon.ESDTRoleNFTAddQuantity,
	vmcommon.BuiltInFunctionESDTNFTBurn:             vmcommon.ESDTRoleNFTBurn,
	vmcommon.BuiltInFunctionESDTNFTAddURI:           vmcommon.ESDTRoleNFTAddURI,
	vmcommon.BuiltInFunctionESDTNFTUpdateAttributes: vmcommon.ESDTRoleNFTUpdateAttributes,
}

var sysOnly = map[string]bool{
	vmcommon.BuiltInFunctionSetESDTRole: true, vmcommon.BuiltInFunctionUnSetESDTRole: true,
	vmcommon.BuiltInFunctionESDTFreeze: true, vmcommon.BuiltInFunctionESDTUnFreeze: true, vmcommon.BuiltInFunctionESDTWipe: true,
	vmcommon.BuiltInFunctionESDTPause: true, vmcommon.BuiltInFunctionESDTUnPause: true,
}

// onlySystemAccountHolding reports whether got and want differ in nothing but entries of the
// system account 0xff..ff (tokens somebody sent to that address).
func onlySystemAccountHolding(got, want map[string]*big.Int) bool {
	diff := false
	keys := map[string]bool{}
	for k := range got {
		keys[k] = true
	}
	for k := range want {
		keys[k] = true
	}
	for k := range keys {
		g, w := got[k], want[k]
		if g == nil {
			g = new(big.Int)
		}
		if w == nil {
			w = new(big.Int)
		}
		if g.Cmp(w) == 0 {
			continue
		}
		a, _ := spec.SplitBalKey(k)
		if !spec.IsSystemAccount(a) {
			return false
		}
		diff = true
	}
	return diff
}

func isSysCaller(leg *world.Leg) bool {
	return leg.Input != nil && bytes.Equal(leg.Input.CallerAddr, vmcommon.ESDTSCAddress)
}

// ---------------------------------------------------------------------------------------------
// C02

type supplyOracle struct{ property string }

func (o *supplyOracle) State(c *explore.Ctx, w *world.World) {
	for k, v := range spec.Balances(w) {
		if v.Sign() < 0 {
			a, s := spec.SplitBalKey(k)
			c.Report(o.property, "negative", "stored-negative-balance", fmt.Sprintf("account %s holds %s under key suffix %x", uni.Name(a), v, s))
		}
	}
}

func (o *supplyOracle) Leg(c *explore.Ctx, leg *world.Leg) {
	if !leg.OK() {
		return
	}
	p := o.property
	in := leg.Input
	want, known := spec.ExpectedDelta(leg)
	if known {
		got := spec.Delta(spec.Balances(leg.Pre), spec.Balances(leg.Post))
		if !spec.EqualDelta(got, want) {
			sig := fmt.Sprintf("%s:%s", leg.Func, sideOf(leg))
			if onlySystemAccountHolding(got, want) {
				// the difference concerns nothing but tokens the system account 0xff..ff itself holds
				sig += ":system-account-own-holding"
			}
			c.Report(p, "delta", sig,
				fmt.Sprintf("balance changes %s, expected %s", spec.FmtDelta(got, uni.Name), spec.FmtDelta(want, uni.Name)))
		}
	}
	// the transfer functions move tokens, they never make or destroy any: the per-key total over
	// all accounts and undelivered messages is the same before and after (title: "supply changes
	// only by the stated amount")
	if world.TransferFuncs[leg.Func] && leg.Pre != leg.Post && !leg.Duplicate {
		if got := spec.Delta(spec.Supply(leg.Pre), spec.Supply(leg.Post)); len(got) != 0 {
			c.Report(p, "supply", fmt.Sprintf("%s:%s", leg.Func, sideOf(leg)),
				fmt.Sprintf("%s changed the total of balances + undelivered transfers by %s", leg.Func, fmtSup(got)))
		} else {
			c.Class("supply-kept:" + leg.Func + ":" + sideOf(leg))
		}
	}
	// overdraft: whatever is taken must be held (running sum per key for repeated entries)
	taken := map[string]*big.Int{}
	for k, v := range want {
		if v.Sign() < 0 {
			taken[k] = new(big.Int).Neg(v)
		}
	}
	if t, ok := spec.LegTransfer(leg); ok && t.Sender {
		taken = map[string]*big.Int{}
		for _, it := range t.Items {
			spec.AddTo(taken, spec.BalKey(in.CallerAddr, it.Suffix()), it.Qty)
		}
	}
	if leg.Func != vmcommon.BuiltInFunctionESDTWipe {
		for k, q := range taken {
			a, s := spec.SplitBalKey(k)
			h := spec.Held(leg.Pre.Get(a), s)
			if q.Cmp(h) > 0 {
				c.Report(p, "overdraft", fmt.Sprintf("%s:%s", leg.Func, sideOf(leg)),
					fmt.Sprintf("%s took %s of key suffix %x from %s which held only %s, and succeeded", leg.Func, q, s, uni.Name(a), h))
			} else if q.Sign() > 0 {
				c.Class("debit-within-holding:" + leg.Func)
				if q.Cmp(h) == 0 {
					c.Class("debit-exact:" + leg.Func)
				}
			}
		}
	}
	switch leg.Func {
	case vmcommon.BuiltInFunctionESDTWipe:
		if len(in.Arguments) == 1 && !spec.Frozen(leg.Pre.Get(in.RecipientAddr), string(in.Arguments[0])) {
			c.Report(p, "wipe", "wipe-not-frozen", fmt.Sprintf("ESDTWipe succeeded on %s which is not frozen for %q", uni.Name(in.RecipientAddr), in.Arguments[0]))
		}
		c.Class("wipe-ok")
	case vmcommon.BuiltInFunctionESDTNFTCreate:
		if known {
			for k := range want {
				a, s := spec.SplitBalKey(k)
				if acc := leg.Pre.Get(a); acc != nil {
					if _, exists := acc.Storage[spec.TokPrefix+s]; exists {
						c.Report(p, "create", "create-over-existing", fmt.Sprintf("ESDTNFTCreate wrote over the existing entry %x of %s", s, uni.Name(a)))
					}
				}
			}
		}
	}
}

// ---------------------------------------------------------------------------------------------
// C03

type authorityOracle struct {
	property string
	dns      map[string]bool
}

func (o *authorityOracle) State(c *explore.Ctx, w *world.World) {}

func (o *authorityOracle) Leg(c *explore.Ctx, leg *world.Leg) {
	if !leg.OK() {
		if leg.Input != nil && gatedRole[leg.Func] != "" && leg.Side == "sender" {
			c.Class("gated-rejected:" + leg.Func)
		}
		return
	}
	p := o.property
	in := leg.Input
	sys := isSysCaller(leg)
	fromSysMsg := leg.Delivered != nil && leg.Delivered.FromSys && !leg.Delivered.Refund
	// role-gated functions
	if role := gatedRole[leg.Func]; role != "" && len(in.Arguments) >= 2 {
		acc := leg.Pre.Get(in.CallerAddr)
		tok := string(in.Arguments[0])
		if !spec.HasRole(acc, tok, role) {
			c.Report(p, "role", fmt.Sprintf("%s:missing-%s", leg.Func, role),
				fmt.Sprintf("%s by %s on %q succeeded although its stored role list %q lacks %s", leg.Func, uni.Name(in.CallerAddr), tok, spec.Roles(acc, tok), role))
		} else {
			c.Class("gated-ok:" + leg.Func)
		}
		if leg.Func == vmcommon.BuiltInFunctionESDTNFTCreate && spec.ArgBig(in.Arguments[1]).Cmp(big.NewInt(1)) > 0 &&
			!spec.HasRole(acc, tok, vmcommon.ESDTRoleNFTAddQuantity) {
			c.Report(p, "role", "ESDTNFTCreate:quantity>1-missing-ESDTRoleNFTAddQuantity",
				fmt.Sprintf("ESDTNFTCreate with quantity %s by %s succeeded without the add-quantity role", spec.ArgBig(in.Arguments[1]), uni.Name(in.CallerAddr)))
		}
	}
	// what "currently holds" means: the stored list after a role message is the old list with the
	// given roles appended (set) / with every given role removed (unset)
	if (leg.Func == vmcommon.BuiltInFunctionSetESDTRole || leg.Func == vmcommon.BuiltInFunctionUnSetESDTRole) && len(in.Arguments) >= 2 {
		tok := string(in.Arguments[0])
		before := spec.Roles(leg.Pre.Get(in.RecipientAddr), tok)
		after := spec.Roles(leg.Post.Get(in.RecipientAddr), tok)
		var want [][]byte
		if leg.Func == vmcommon.BuiltInFunctionSetESDTRole {
			want = append(append([][]byte{}, before...), in.Arguments[1:]...)
		} else {
			want = append([][]byte{}, before...)
			for _, r := range in.Arguments[1:] {
				for i, x := range want {
					if bytes.Equal(x, r) {
						want = append(want[:i:i], want[i+1:]...)
						break
					}
				}
			}
		}
		// compared as multisets: the order inside the stored list is not part of the statement
		count := map[string]int{}
		for _, r := range want {
			count[string(r)]++
		}
		for _, r := range after {
			count[string(r)]--
		}
		same := true
		for _, n := range count {
			if n != 0 {
				same = false
			}
		}
		if !same {
			c.Report(p, "role-effect", leg.Func+":stored-list", fmt.Sprintf("%s(%q, %q) on %s turned the role list %q into %q, expected %q", leg.Func, tok, in.Arguments[1:], uni.Name(in.RecipientAddr), before, after, want))
		}
	}
	// hand-over, first half: afterwards the old holder no longer holds the create role (whatever
	// its counter was), and a local new holder does
	if leg.Func == vmcommon.BuiltInFunctionESDTNFTCreateRoleTransfer && sys && len(in.Arguments) == 2 && !bytes.Equal(in.Arguments[1], in.RecipientAddr) {
		tok := string(in.Arguments[0])
		if spec.HasRole(leg.Post.Get(in.RecipientAddr), tok, vmcommon.ESDTRoleNFTCreate) {
			c.Report(p, "role-effect", "ESDTNFTCreateRoleTransfer:old-holder-keeps-role", fmt.Sprintf("after the hand-over of %q to %s the old holder %s still holds the create role", tok, uni.Name(in.Arguments[1]), uni.Name(in.RecipientAddr)))
		}
		if len(in.Arguments[1]) == 32 && leg.Pre.ShardOf(in.Arguments[1]) == leg.Shard && !spec.HasRole(leg.Post.Get(in.Arguments[1]), tok, vmcommon.ESDTRoleNFTCreate) {
			c.Report(p, "role-effect", "ESDTNFTCreateRoleTransfer:new-holder-without-role", fmt.Sprintf("after the same-shard hand-over of %q the new holder %s does not hold the create role", tok, uni.Name(in.Arguments[1])))
		}
		c.Class("handover-role-effect-checked")
	}
	if leg.Func == vmcommon.BuiltInFunctionESDTWipe && !sys {
		c.Report(p, "system-only", "ESDTWipe:non-system-caller", fmt.Sprintf("ESDTWipe by %s succeeded", uni.Name(in.CallerAddr)))
	}
	// destination-side layouts must not run where the sender account is local
	if (leg.Func == vmcommon.BuiltInFunctionESDTNFTTransfer || leg.Func == vmcommon.BuiltInFunctionMultiESDTNFTTransfer) &&
		leg.SndLocal && !bytes.Equal(in.CallerAddr, in.RecipientAddr) {
		c.Report(p, "dest-layout", leg.Func+":dest-layout-with-local-sender",
			fmt.Sprintf("%s in its destination-side layout (caller %s != recipient %s) succeeded although the sender account is local", leg.Func, uni.Name(in.CallerAddr), uni.Name(in.RecipientAddr)))
	}
	if leg.Func == vmcommon.BuiltInFunctionESDTNFTCreateRoleTransfer && leg.SndLocal {
		c.Report(p, "dest-layout", leg.Func+":local-sender", "ESDTNFTCreateRoleTransfer succeeded although the sender account is local")
	}
	if leg.Pre == leg.Post {
		return
	}
	keys, fields := diffWorlds(leg.Pre, leg.Post)
	for _, k := range keys {
		switch {
		case spec.IsSystemAccount(k.Addr):
			if !(sys && (leg.Func == vmcommon.BuiltInFunctionESDTPause || leg.Func == vmcommon.BuiltInFunctionESDTUnPause)) {
				c.Report(p, "system-only", leg.Func+":pause-flag-changed", fmt.Sprintf("system account key %q changed by %s called by %s", k.Key, leg.Func, uni.Name(in.CallerAddr)))
			} else {
				c.Class("pause-flag-changed-by-system")
			}
		case strings.HasPrefix(k.Key, spec.RolePrefix):
			if !(sys || (fromSysMsg && leg.Func == vmcommon.BuiltInFunctionESDTNFTCreateRoleTransfer)) {
				c.Report(p, "system-only", leg.Func+":role-list-changed", fmt.Sprintf("role list %q of %s changed by %s called by %s", k.Key, uni.Name(k.Addr), leg.Func, uni.Name(in.CallerAddr)))
			} else {
				c.Class("role-list-changed-by-system")
			}
		case strings.HasPrefix(k.Key, spec.NoncePrefix):
			created := leg.Func == vmcommon.BuiltInFunctionESDTNFTCreate && bytes.Equal(k.Addr, in.CallerAddr) && len(in.Arguments) > 0 && k.Key == spec.NoncePrefix+string(in.Arguments[0])
			if !(sys || (fromSysMsg && leg.Func == vmcommon.BuiltInFunctionESDTNFTCreateRoleTransfer) || created) {
				c.Report(p, "system-only", leg.Func+":nonce-counter-changed", fmt.Sprintf("nonce counter %q of %s changed by %s called by %s", k.Key, uni.Name(k.Addr), leg.Func, uni.Name(in.CallerAddr)))
			}
		case strings.HasPrefix(k.Key, spec.TokPrefix):
			if frozenBit(k.Pre) != frozenBit(k.Post) {
				if !(sys && (leg.Func == vmcommon.BuiltInFunctionESDTFreeze || leg.Func == vmcommon.BuiltInFunctionESDTUnFreeze || leg.Func == vmcommon.BuiltInFunctionESDTWipe)) {
					c.Report(p, "system-only", leg.Func+":frozen-flag-changed", fmt.Sprintf("frozen flag of %s under %q changed by %s called by %s", uni.Name(k.Addr), k.Key, leg.Func, uni.Name(in.CallerAddr)))
				} else {
					c.Class("frozen-flag-changed-by-system")
				}
			}
		}
	}
	for _, f := range fields {
		acc := leg.Pre.GetOn(f.Shard, f.Addr)
		var owner []byte
		if acc != nil {
			owner = acc.Owner
		}
		switch f.Field {
		case "owner":
			if !(leg.Func == vmcommon.BuiltInFunctionChangeOwnerAddress && bytes.Equal(in.CallerAddr, owner) && bytes.Equal(f.Addr, in.RecipientAddr)) {
				c.Report(p, "owner", leg.Func+":owner-changed", fmt.Sprintf("owner of %s changed by %s called by %s (owner was %s)", uni.Name(f.Addr), leg.Func, uni.Name(in.CallerAddr), uni.Name(owner)))
			} else {
				c.Class("owner-changed-by-owner")
			}
		case "devReward":
			if !(leg.Func == vmcommon.BuiltInFunctionClaimDeveloperRewards && bytes.Equal(in.CallerAddr, owner) && bytes.Equal(f.Addr, in.RecipientAddr)) {
				c.Report(p, "owner", leg.Func+":reward-changed", fmt.Sprintf("developer reward of %s changed by %s called by %s (owner is %s)", uni.Name(f.Addr), leg.Func, uni.Name(in.CallerAddr), uni.Name(owner)))
			} else {
				c.Class("reward-claimed-by-owner")
			}
		case "userName":
			if !(leg.Func == vmcommon.BuiltInFunctionSetUserName && o.dns[string(in.CallerAddr)] && bytes.Equal(f.Addr, in.RecipientAddr)) {
				c.Report(p, "dns", leg.Func+":username-changed", fmt.Sprintf("user name of %s changed by %s called by %s", uni.Name(f.Addr), leg.Func, uni.Name(in.CallerAddr)))
			} else {
				c.Class("username-set-by-dns")
			}
		case "balance":
			if !(leg.Func == vmcommon.BuiltInFunctionClaimDeveloperRewards && bytes.Equal(f.Addr, in.CallerAddr)) {
				c.Report(p, "owner", leg.Func+":balance-changed", fmt.Sprintf("native balance of %s changed by %s", uni.Name(f.Addr), leg.Func))
			}
		default:
			c.Report(p, "owner", leg.Func+":"+f.Field+"-changed", fmt.Sprintf("%s of %s changed by %s", f.Field, uni.Name(f.Addr), leg.Func))
		}
	}
}

// ---------------------------------------------------------------------------------------------
// C04

type freezeOracle struct{ property string }

func (o *freezeOracle) State(c *explore.Ctx, w *world.World) {}

func tokenOfSuffix(suffix string) (tok string, isNFT bool, ok bool) {
	// the ghost universe decides which split of token||nonce is meant (A7 c)
	if TokKind(suffix) == "fungible" {
		return suffix, false, true
	}
	for i := 1; i < len(suffix); i++ {
		if TokKind(suffix[:i]) == "nft" {
			return suffix[:i], true, true
		}
	}
	if TokKind(suffix) == "nft" {
		return suffix, false, true // bare key of an NFT collection (frozen-flag carrier)
	}
	return "", false, false
}

func (o *freezeOracle) Leg(c *explore.Ctx, leg *world.Leg) {
	if !leg.OK() {
		return
	}
	p := o.property
	in := leg.Input
	sys := isSysCaller(leg)
	// the controls have the effect the flags are defined by: the frozen flag lives in the account's
	// entry of the token, the paused flag in the system account 0xff..ff of the shard
	if sys && len(in.Arguments) > 0 && leg.Post != nil {
		tok := string(in.Arguments[0])
		switch leg.Func {
		case vmcommon.BuiltInFunctionESDTPause, vmcommon.BuiltInFunctionESDTUnPause:
			want := leg.Func == vmcommon.BuiltInFunctionESDTPause
			if spec.Paused(leg.Post, leg.Shard, tok) != want {
				c.Report(p, "toggle", leg.Func+":no-effect", fmt.Sprintf("%s addressed to %x returned Ok on shard %d, yet the paused flag of %q in the shard's system account is %v afterwards",
					leg.Func, in.RecipientAddr, leg.Shard, tok, !want))
			}
		case vmcommon.BuiltInFunctionESDTFreeze, vmcommon.BuiltInFunctionESDTUnFreeze:
			want := leg.Func == vmcommon.BuiltInFunctionESDTFreeze
			if spec.Frozen(leg.Post.GetOn(leg.Shard, in.RecipientAddr), tok) != want {
				c.Report(p, "toggle", leg.Func+":no-effect", fmt.Sprintf("%s of %s returned Ok, yet the frozen flag of %q in its entry is %v afterwards",
					leg.Func, uni.Name(in.RecipientAddr), tok, !want))
			}
		}
	}
	// flag integrity: the flags are exactly what the system contract's accepted controls left
	// (no other function, refunds included, sets or clears one)
	if leg.Post != nil && leg.Pre != leg.Post {
		o.flagIntegrity(c, leg)
	}
	if leg.Pre == leg.Post {
		return
	}
	if sys && (leg.Func == vmcommon.BuiltInFunctionESDTWipe || leg.Func == vmcommon.BuiltInFunctionESDTUnFreeze || leg.Func == vmcommon.BuiltInFunctionESDTUnPause) {
		return
	}
	if in.ReturnCallAfterError {
		c.Class("refund-exempt")
		return
	}
	d := spec.Delta(spec.Balances(leg.Pre), spec.Balances(leg.Post))
	if sys && (leg.Func == vmcommon.BuiltInFunctionESDTFreeze || leg.Func == vmcommon.BuiltInFunctionESDTPause) && len(d) != 0 {
		sig := leg.Func + ":balance-changed"
		if onlySystemAccountHolding(d, map[string]*big.Int{}) {
			sig += ":system-account-own-holding"
		}
		c.Report(p, "toggle", sig, fmt.Sprintf("%s changed balances: %s", leg.Func, spec.FmtDelta(d, uni.Name)))
	}
	for k, v := range d {
		addr, suffix := spec.SplitBalKey(k)
		if bytes.Equal(addr, vmcommon.ESDTSCAddress) {
			continue
		}
		acc := leg.Pre.Get(addr)
		tok, isNFT, ok := tokenOfSuffix(suffix)
		if !ok {
			continue
		}
		if !isNFT && spec.Frozen(acc, tok) && TokKind(tok) == "fungible" {
			c.Report(p, "frozen", fmt.Sprintf("%s:%s", leg.Func, sideOf(leg)),
				fmt.Sprintf("%s changed the balance of %q of %s by %s while the account is frozen for it", leg.Func, tok, uni.Name(addr), v))
		}
		if spec.Paused(leg.Pre, leg.Pre.ShardOf(addr), tok) {
			c.Report(p, "paused", fmt.Sprintf("%s:%s", leg.Func, sideOf(leg)),
				fmt.Sprintf("%s changed the balance of %s under key suffix %x by %s while token %q is paused on shard %d", leg.Func, uni.Name(addr), suffix, v, tok, leg.Pre.ShardOf(addr)))
		}
	}
	// metadata updates count as token changes too
	if leg.Func == vmcommon.BuiltInFunctionESDTNFTAddURI || leg.Func == vmcommon.BuiltInFunctionESDTNFTUpdateAttributes {
		if len(in.Arguments) > 0 && spec.Paused(leg.Pre, leg.Shard, string(in.Arguments[0])) {
			c.Report(p, "paused", fmt.Sprintf("%s:%s", leg.Func, sideOf(leg)), fmt.Sprintf("%s succeeded while %q is paused", leg.Func, in.Arguments[0]))
		}
	}
}

func (o *freezeOracle) flagIntegrity(c *explore.Ctx, leg *world.Leg) {
	w := leg.Post
	p := o.property
	for sh, shard := range w.Shards {
		for _, acc := range shard.Accts {
			isSys := bytes.Equal(acc.Addr, vmcommon.SystemAccountAddress)
			for k, raw := range acc.Storage {
				if !strings.HasPrefix(k, spec.TokPrefix) {
					continue
				}
				suffix := k[len(spec.TokPrefix):]
				if isSys {
					stored := len(raw) == 2 && raw[0]&1 != 0
					if stored != w.GhostFlag("paused", []byte{byte(sh)}, suffix) {
						c.Report(p, "flag", leg.Func+":"+sideOf(leg)+":paused-flag", fmt.Sprintf("after %s the paused flag of %q on shard %d is %v, the system contract's accepted controls left it %v", leg.Func, suffix, sh, stored, !stored))
					}
					continue
				}
				stored := spec.Frozen(acc, suffix)
				if stored != w.GhostFlag("frozen", acc.Addr, suffix) {
					c.Report(p, "flag", leg.Func+":"+sideOf(leg)+":frozen-flag", fmt.Sprintf("after %s the frozen flag in %s's entry %x is %v, the system contract's accepted controls left it %v", leg.Func, uni.Name(acc.Addr), suffix, stored, !stored))
				}
			}
		}
	}
	for _, f := range w.GhostFlags("frozen") {
		if !spec.Frozen(w.Get([]byte(f[0])), f[1]) {
			c.Report(p, "flag", leg.Func+":"+sideOf(leg)+":frozen-flag", fmt.Sprintf("after %s %s is no longer frozen for %q although the system contract froze it and never released it", leg.Func, uni.Name([]byte(f[0])), f[1]))
		}
	}
	for _, f := range w.GhostFlags("paused") {
		if !spec.Paused(w, uint32(f[0][0]), f[1]) {
			c.Report(p, "flag", leg.Func+":"+sideOf(leg)+":paused-flag", fmt.Sprintf("after %s %q is no longer paused on shard %d although the system contract paused it and never released it", leg.Func, f[1], f[0][0]))
		}
	}
}

// blockedClasses counts, for non-vacuity, rejected calls that the flags explain.
func (o *freezeOracle) rejected(c *explore.Ctx, leg *world.Leg) {}

// ---------------------------------------------------------------------------------------------
// C09

type payableOracle struct{ property string }

func (o *payableOracle) State(c *explore.Ctx, w *world.World) {}

func (o *payableOracle) Leg(c *explore.Ctx, leg *world.Leg) {
	if !world.TransferFuncs[leg.Func] || !leg.OK() {
		return
	}
	p := o.property
	in := leg.Input
	t, ok := spec.LegTransfer(leg)
	if !ok {
		return
	}
	// address guards
	if t.Sender {
		if len(t.Dest) == 32 && leg.Pre.ShardOf(t.Dest) == vmcommon.MetachainShardId {
			c.Report(p, "metachain", leg.Func+":to-metachain", fmt.Sprintf("%s addressed to the metachain address %s succeeded", leg.Func, uni.Name(t.Dest)))
		}
		if leg.Func != vmcommon.BuiltInFunctionESDTTransfer {
			if bytes.Equal(t.Dest, in.CallerAddr) {
				c.Report(p, "self", leg.Func+":to-self", fmt.Sprintf("%s addressed to the sender itself succeeded", leg.Func))
			}
			if len(t.Dest) != len(in.CallerAddr) {
				c.Report(p, "length", leg.Func+":bad-length", fmt.Sprintf("%s addressed to a %d-byte address succeeded", leg.Func, len(t.Dest)))
			}
		}
	}
	// credits
	d := spec.Delta(spec.Balances(leg.Pre), spec.Balances(leg.Post))
	credited := false
	for k, v := range d {
		a, _ := spec.SplitBalKey(k)
		if bytes.Equal(a, t.Dest) && v.Sign() > 0 {
			credited = true
		}
	}
	if !credited {
		return
	}
	payable, isErr := leg.Pre.PayAnswer(t.Dest)
	exempt := spec.Exempt(in, t.MinArgs)
	cls := "payable"
	if isErr {
		cls = "oracle-error"
	} else if !payable {
		cls = "non-payable"
	}
	if exempt {
		cls += "+exempt"
	}
	c.Class("credit:" + cls)
	if (!payable || isErr) && !exempt {
		c.Report(p, "credit", fmt.Sprintf("%s:%s:%s", leg.Func, sideOf(leg), itemClass(t)),
			fmt.Sprintf("%s credited %s whose payability answer is %s, with no attached call, call type %d, caller %s", leg.Func, uni.Name(t.Dest), cls, in.CallType, uni.Name(in.CallerAddr)))
	}
}

// ---------------------------------------------------------------------------------------------
// C07

type nonceOracle struct{ property string }

func createHolders(w *world.World, tok string) [][]byte {
	var out [][]byte
	for _, s := range w.Shards {
		for _, a := range s.Accts {
			if spec.HasRole(a, tok, vmcommon.ESDTRoleNFTCreate) {
				out = append(out, a.Addr)
			}
		}
	}
	sort.Slice(out, func(i, j int) bool { return bytes.Compare(out[i], out[j]) < 0 })
	return out
}

func (o *nonceOracle) State(c *explore.Ctx, w *world.World) {
	p := o.property
	for tok, hi := range w.Ghost.Highest {
		holders := createHolders(w, tok)
		if len(holders) > 1 {
			c.Report(p, "single-creator", "two-holders", fmt.Sprintf("token %q: create role held by %d accounts", tok, len(holders)))
		}
		for _, h := range holders {
			if ctr := spec.Counter(w.Get(h), tok); ctr != hi {
				c.Report(p, "counter", "holder-counter-differs-from-highest",
					fmt.Sprintf("token %q: holder %s has counter %d but the highest nonce ever issued is %d", tok, uni.Name(h), ctr, hi))
			}
		}
		// a hand-over in flight carries the highest nonce
		for _, m := range w.Inflight {
			fn, args, ok := spec.SplitData(m.Data)
			if ok && fn == vmcommon.BuiltInFunctionESDTNFTCreateRoleTransfer && len(args) == 2 && string(args[0]) == tok {
				if spec.ArgUint64(args[1]) != hi {
					c.Report(p, "counter", "handover-message-counter", fmt.Sprintf("token %q: hand-over message carries %d, highest issued %d", tok, spec.ArgUint64(args[1]), hi))
				}
			}
		}
		// nobody without the role keeps a counter
		for _, s := range w.Shards {
			for _, a := range s.Accts {
				if _, has := a.Storage[spec.NoncePrefix+tok]; has && !spec.HasRole(a, tok, vmcommon.ESDTRoleNFTCreate) {
					c.Report(p, "counter", "counter-without-role", fmt.Sprintf("token %q: %s keeps a counter without holding the create role", tok, uni.Name(a.Addr)))
				}
			}
		}
	}
}

func (o *nonceOracle) Leg(c *explore.Ctx, leg *world.Leg) {
	p := o.property
	in := leg.Input
	if leg.Side == "dest" && leg.Delivered != nil && !leg.Duplicate && !leg.OK() {
		if fn, _, _ := spec.SplitData(leg.Delivered.Data); fn == vmcommon.BuiltInFunctionESDTNFTCreateRoleTransfer || bytes.HasPrefix(leg.Delivered.Data, []byte(vmcommon.BuiltInFunctionESDTNFTCreateRoleTransfer+"@")) {
			c.Report(p, "handover", "delivery-refused", fmt.Sprintf("the hand-over message %s was not accepted by the new holder's shard (%v): the create role and the counter are lost", shortData(leg.Delivered.Data), leg.Err))
		}
	}
	if in == nil {
		return
	}
	if leg.OK() && leg.Func == vmcommon.BuiltInFunctionESDTNFTCreate && len(in.Arguments) > 1 {
		tok := string(in.Arguments[0])
		want := leg.Pre.Ghost.Highest[tok] + 1
		var got uint64
		if len(leg.Out.ReturnData) > 0 {
			got = spec.ArgUint64(leg.Out.ReturnData[0])
		}
		if len(leg.Out.ReturnData) != 1 || got != want || !bytes.Equal(leg.Out.ReturnData[0], new(big.Int).SetUint64(want).Bytes()) {
			c.Report(p, "create", "returned-nonce", fmt.Sprintf("ESDTNFTCreate of %q returned %x, expected highest issued (%d) + 1", tok, leg.Out.ReturnData, want-1))
			return
		}
		// the same through the library's own accessors of the returned value
		if v, err := leg.Out.GetFirstReturnData(vmcommon.AsBigInt); err != nil || v == nil || v.(*big.Int).Cmp(new(big.Int).SetUint64(want)) != 0 {
			c.Report(p, "create", "returned-nonce:as-big-int", fmt.Sprintf("ESDTNFTCreate of %q: GetFirstReturnData(AsBigInt) gives %v (%v), the nonce issued is %d", tok, v, err, want))
		}
		if v, err := leg.Out.GetFirstReturnData(vmcommon.AsBigIntString); err != nil || v == nil || v.(string) != new(big.Int).SetUint64(want).String() {
			c.Report(p, "create", "returned-nonce:as-big-int-string", fmt.Sprintf("ESDTNFTCreate of %q: GetFirstReturnData(AsBigIntString) gives %v (%v), the nonce issued is %d", tok, v, err, want))
		}
		suffix := tok + spec.NonceSuffix(want)
		// the key must be fresh in the whole world and the in-flight pool
		for _, s := range leg.Pre.Shards {
			for _, a := range s.Accts {
				if _, ok := a.Storage[spec.TokPrefix+suffix]; ok && !spec.IsSystemAccount(a.Addr) {
					c.Report(p, "create", "nonce-reused", fmt.Sprintf("ESDTNFTCreate issued (%q,%d) although %s already holds an entry under that key", tok, want, uni.Name(a.Addr)))
				}
			}
		}
		for _, m := range leg.Pre.Inflight {
			if _, ok := spec.MsgCarried(m)[suffix]; ok {
				c.Report(p, "create", "nonce-reused", fmt.Sprintf("ESDTNFTCreate issued (%q,%d) although a message in flight carries that key", tok, want))
			}
		}
		e := spec.Entry(leg.Post.Get(in.CallerAddr), suffix)
		if e == nil || e.TokenMetaData == nil || e.TokenMetaData.Nonce != want {
			c.Report(p, "create", "stored-nonce", fmt.Sprintf("ESDTNFTCreate of %q did not store an entry with metadata nonce %d under its key", tok, want))
		}
		if ctr := spec.Counter(leg.Post.Get(in.CallerAddr), tok); ctr != want {
			c.Report(p, "create", "counter-after-create", fmt.Sprintf("counter of %q after create is %d, expected %d", tok, ctr, want))
		}
		c.Class(fmt.Sprintf("create:%s:nonce%d", tok, want))
		if want > 1 && spec.Counter(leg.Pre.Get(in.CallerAddr), tok) == want-1 {
			c.Class("create-continues")
		}
	}
	if leg.OK() && leg.Func == vmcommon.BuiltInFunctionESDTNFTCreateRoleTransfer && len(in.Arguments) == 2 {
		tok := string(in.Arguments[0])
		if isSysCaller(leg) {
			// first half: the old holder loses role and counter
			old := leg.Post.Get(in.RecipientAddr)
			next := in.Arguments[1]
			if !bytes.Equal(next, in.RecipientAddr) {
				if spec.HasRole(old, tok, vmcommon.ESDTRoleNFTCreate) || spec.Counter(old, tok) != 0 {
					c.Report(p, "handover", "old-holder-keeps", fmt.Sprintf("after the hand-over of %q the old holder %s still has role=%v counter=%d", tok, uni.Name(in.RecipientAddr),
						spec.HasRole(old, tok, vmcommon.ESDTRoleNFTCreate), spec.Counter(old, tok)))
				}
			}
			if leg.Pre.ShardOf(next) == leg.Shard {
				c.Class("handover-same-shard")
			} else {
				c.Class("handover-cross-shard")
			}
		} else if leg.Side == "dest" {
			// second half: the new holder now has the role and continues after the highest nonce
			nh := leg.Post.Get(in.RecipientAddr)
			if !spec.HasRole(nh, tok, vmcommon.ESDTRoleNFTCreate) || spec.Counter(nh, tok) != leg.Pre.Ghost.Highest[tok] {
				c.Report(p, "handover", "new-holder-after-delivery", fmt.Sprintf("after the delivery of the hand-over of %q the new holder %s has role=%v counter=%d, highest issued %d", tok, uni.Name(in.RecipientAddr),
					spec.HasRole(nh, tok, vmcommon.ESDTRoleNFTCreate), spec.Counter(nh, tok), leg.Pre.Ghost.Highest[tok]))
			}
			if leg.Duplicate {
				c.Class("handover-delivered-twice")
			} else {
				c.Class("handover-delivered")
			}
			if len(leg.Pre.Inflight) > 1 || leg.Pre.Ghost.Highest[tok] > 2 {
				c.Class("handover-delivered-late")
			}
		}
	}
}

// ---------------------------------------------------------------------------------------------
// C15

type wellformedOracle struct{ property string }

func (o *wellformedOracle) Leg(c *explore.Ctx, leg *world.Leg) {}

func (o *wellformedOracle) State(c *explore.Ctx, w *world.World) {
	p := o.property
	for _, s := range w.Shards {
		for _, a := range s.Accts {
			sysAcc := spec.IsSystemAccount(a.Addr)
			for k, v := range a.Storage {
				if !strings.HasPrefix(k, vmcommon.ElrondProtectedKeyPrefix) {
					continue
				}
				who := uni.Name(a.Addr)
				switch {
				case strings.HasPrefix(k, spec.TokPrefix):
					suffix := k[len(spec.TokPrefix):]
					if sysAcc {
						if len(v) != 2 {
							c.Report(p, "pause-entry", "system-account-value-length", fmt.Sprintf("system account of shard %d holds %d bytes under %q", s.ID, len(v), k))
						}
						continue
					}
					t, err := spec.DecodeToken(v)
					if err != nil {
						c.Report(p, "decode", "token-entry-undecodable", fmt.Sprintf("%s: entry %q does not decode: %v", who, k, err))
						continue
					}
					if t.Value == nil {
						c.Report(p, "decode", "token-entry-nil-value", fmt.Sprintf("%s: entry %q has no value", who, k))
						continue
					}
					frozen := len(t.Properties) == 2 && t.Properties[0]&1 != 0
					if t.Value.Sign() < 0 {
						c.Report(p, "balance", "negative", fmt.Sprintf("%s: entry %x holds %s", who, suffix, t.Value))
					}
					if t.Value.Sign() == 0 && !(frozen && t.TokenMetaData == nil) {
						c.Report(p, "balance", "zero-entry-kept", fmt.Sprintf("%s: entry %x has balance 0 and no frozen flag (metadata=%v)", who, suffix, t.TokenMetaData != nil))
					}
					// layout: some split (token, nonce) into a name in use must explain the entry
					okLayout := false
					if t.TokenMetaData == nil {
						if TokKind(suffix) != "unissued" || usedName(suffix) {
							okLayout = true
						}
					} else if t.TokenMetaData.Nonce != 0 {
						ns := spec.NonceSuffix(t.TokenMetaData.Nonce)
						if strings.HasSuffix(suffix, ns) && usedName(suffix[:len(suffix)-len(ns)]) {
							okLayout = true
						}
					}
					if !okLayout {
						c.Report(p, "layout", "token-key-layout", fmt.Sprintf("%s: entry under key suffix %x (metadata nonce %v) matches no token||nonce layout of a name in use", who, suffix, metaNonce(t)))
					}
					if t.TokenMetaData != nil && t.Type != uint32(vmcommon.NonFungible) {
						c.Report(p, "layout", "metadata-on-fungible-type", fmt.Sprintf("%s: entry %x has metadata but type %d", who, suffix, t.Type))
					}
					if t.TokenMetaData == nil && t.Type != uint32(vmcommon.Fungible) {
						c.Report(p, "layout", "nft-type-without-metadata", fmt.Sprintf("%s: entry %x has type %d but no metadata", who, suffix, t.Type))
					}
				case strings.HasPrefix(k, spec.RolePrefix):
					tok := k[len(spec.RolePrefix):]
					r := &esdt.ESDTRoles{}
					if err := r.Unmarshal(v); err != nil {
						c.Report(p, "decode", "role-list-undecodable", fmt.Sprintf("%s: role list %q does not decode: %v", who, k, err))
						continue
					}
					if !usedName(tok) {
						c.Report(p, "layout", "role-key-layout", fmt.Sprintf("%s: role key for unknown token %q", who, tok))
					}
					seen := map[string]bool{}
					for _, role := range r.Roles {
						if len(role) == 0 {
							c.Report(p, "roles", "empty-role-name", fmt.Sprintf("%s: empty role name in list of %q", who, tok))
						}
						if seen[string(role)] {
							c.Report(p, "roles", "duplicate-role", fmt.Sprintf("%s: role %s twice in list of %q", who, role, tok))
						}
						seen[string(role)] = true
					}
					if len(r.Roles) == 0 {
						c.Report(p, "roles", "empty-role-list-kept", fmt.Sprintf("%s: empty role list stored for %q", who, tok))
					}
					if seen[vmcommon.ESDTRoleNFTCreate] {
						if ctr, hi := spec.Counter(a, tok), w.Ghost.Highest[tok]; ctr < hi {
							c.Report(p, "counter", "counter-below-issued", fmt.Sprintf("%s holds the create role of %q with counter %d below the highest issued nonce %d", who, tok, ctr, hi))
						}
					}
				case strings.HasPrefix(k, spec.NoncePrefix):
					tok := k[len(spec.NoncePrefix):]
					if !usedName(tok) {
						c.Report(p, "layout", "nonce-key-layout", fmt.Sprintf("%s: nonce key for unknown token %q", who, tok))
					}
					if len(v) == 0 {
						c.Report(p, "decode", "nonce-counter-empty", fmt.Sprintf("%s: empty counter entry kept for %q", who, tok))
					}
				default:
					c.Report(p, "layout", "unknown-protected-key", fmt.Sprintf("%s: protected key %q has none of the three layouts", who, k))
				}
			}
		}
	}
}

func metaNonce(t *esdt.ESDigitalToken) interface{} {
	if t.TokenMetaData == nil {
		return "none"
	}
	return t.TokenMetaData.Nonce
}

func usedName(tok string) bool {
	switch tok {
	case tF, tF1, tS, tS1, tU, tR:
		return true
	}
	return false
}
