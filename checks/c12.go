package checks

import (
	"bytes"
	"encoding/hex"
	"fmt"
	"math/big"
	"strings"
	"time"

	vmcommon "github.com/ElrondNetwork/elrond-vm-common"
	"github.com/ElrondNetwork/elrond-vm-common/data/esdt"
	"github.com/ElrondNetwork/elrond-vm-common/parsers"
	"github.com/ElrondNetwork/elrond-vm-common/txDataBuilder"

	"verif/engine/spec"
	"verif/engine/world"
)

// ---------------------------------------------------------------------------------------------
// reference tokenizer: split on '@', non-empty first token, strict even-length hex (either case)

func refHex(s string) ([]byte, bool) {
	if len(s)%2 != 0 {
		return nil, false
	}
	out := make([]byte, len(s)/2)
	val := func(c byte) int {
		switch {
		case c >= '0' && c <= '9':
			return int(c - '0')
		case c >= 'a' && c <= 'f':
			return int(c-'a') + 10
		case c >= 'A' && c <= 'F':
			return int(c-'A') + 10
		}
		return -1
	}
	for i := 0; i < len(s); i += 2 {
		h, l := val(s[i]), val(s[i+1])
		if h < 0 || l < 0 {
			return nil, false
		}
		out[i/2] = byte(h<<4 | l)
	}
	return out, true
}

func refSplit(s string) []string {
	var out []string
	cur := ""
	for i := 0; i < len(s); i++ {
		if s[i] == '@' {
			out = append(out, cur)
			cur = ""
		} else {
			cur += string(s[i])
		}
	}
	return append(out, cur)
}

func refCall(s string) (fn string, args [][]byte, ok bool) {
	t := refSplit(s)
	if t[0] == "" {
		return "", nil, false
	}
	args = [][]byte{}
	for _, x := range t[1:] {
		b, ok := refHex(x)
		if !ok {
			return "", nil, false
		}
		args = append(args, b)
	}
	return t[0], args, true
}

type refDeployArgs struct {
	code, vmType []byte
	meta         vmcommon.CodeMetadata
	args         [][]byte
}

func refDeploy(s string) (*refDeployArgs, bool) {
	t := refSplit(s)
	if t[0] == "" || len(t) < 3 {
		return nil, false
	}
	r := &refDeployArgs{args: [][]byte{}}
	var ok bool
	if r.code, ok = refHex(t[0]); !ok {
		return nil, false
	}
	if t[1] == "" {
		return nil, false
	}
	if r.vmType, ok = refHex(t[1]); !ok {
		return nil, false
	}
	mb, ok := refHex(t[2])
	if !ok {
		return nil, false
	}
	if len(mb) == 2 {
		r.meta = vmcommon.CodeMetadata{Upgradeable: mb[0]&1 != 0, Readable: mb[0]&4 != 0, Payable: mb[1]&2 != 0}
	}
	for _, x := range t[3:] {
		b, ok := refHex(x)
		if !ok {
			return nil, false
		}
		r.args = append(r.args, b)
	}
	return r, true
}

func refStorage(s string) ([][2][]byte, bool) {
	if len(s) > 0 && s[0] == '@' {
		s = s[1:]
	}
	t := refSplit(s)
	if t[0] == "" || len(t)%2 != 0 {
		return nil, false
	}
	var out [][2][]byte
	for i := 0; i < len(t); i += 2 {
		k, ok1 := refHex(t[i])
		v, ok2 := refHex(t[i+1])
		if !ok1 || !ok2 {
			return nil, false
		}
		out = append(out, [2][]byte{k, v})
	}
	return out, true
}

var (
	c12Call    = parsers.NewCallArgsParser()
	c12Deploy  = parsers.NewDeployArgsParser()
	c12Storage = parsers.NewStorageUpdatesParser()
)

func checkString(e *Enum, s string) {
	const P = "C12"
	// call arguments
	var fn string
	var args [][]byte
	var err error
	if p := guard(func() { fn, args, err = c12Call.ParseData(s) }); p != nil {
		e.Fail(P, "total", "callArgsParser-panic", fmt.Sprintf("callArgsParser.ParseData(%q) panicked: %v", s, p), "case", s)
	} else {
		// Agreement is demanded on the image of the builders only (the statement: parsers are total
		// and inverse to the builders): s is canonical iff re-building the reference reading gives s
		// back (function without '@', lower-case even-length hex). Elsewhere only totality.
		rfn, rargs, ok := refCall(s)
		canonical := false
		if ok {
			rebuilt := rfn
			for _, a := range rargs {
				rebuilt += "@" + hex.EncodeToString(a)
			}
			canonical = rebuilt == s
		}
		switch {
		case canonical && err != nil:
			e.Fail(P, "agree", "callArgsParser-accept-reject", fmt.Sprintf("callArgsParser.ParseData(%q) fails (%v) on a string the builder produces", s, err), "case", s)
		case canonical && (fn != rfn || !argsEqStrict(args, rargs)):
			e.Fail(P, "agree", "callArgsParser-content", fmt.Sprintf("callArgsParser.ParseData(%q) = %q %x, the builder encoded %q %x", s, fn, args, rfn, rargs), "case", s)
		case err != nil && (fn != "" || args != nil):
			e.Fail(P, "total", "callArgsParser-result-and-error", fmt.Sprintf("callArgsParser.ParseData(%q) returned both a result and an error", s), "case", s)
		}
		if canonical {
			e.Case(fmt.Sprintf("call:canonical:args%d", len(rargs)))
		}
		e.Case(fmt.Sprintf("call:ok%v:args%d", err == nil, len(args)))
	}
	// deploy arguments
	var d *parsers.DeployArgs
	if p := guard(func() { d, err = c12Deploy.ParseData(s) }); p != nil {
		e.Fail(P, "total", "deployArgsParser-panic", fmt.Sprintf("deployArgsParser.ParseData(%q) panicked: %v", s, p), "case", s)
	} else {
		r, ok := refDeploy(s)
		canonical := ok && s == strings.ToLower(s)
		switch {
		case (err == nil) != (d != nil):
			e.Fail(P, "total", "deployArgsParser-result-xor-error", fmt.Sprintf("deployArgsParser.ParseData(%q): err=%v result=%v", s, err, d != nil), "case", s)
		case canonical && err != nil:
			e.Fail(P, "agree", "deployArgsParser-accept-reject", fmt.Sprintf("deployArgsParser.ParseData(%q) fails (%v) on well-formed deploy data", s, err), "case", s)
		case canonical && (!bytes.Equal(d.Code, r.code) || !bytes.Equal(d.VMType, r.vmType) || d.CodeMetadata != r.meta || !argsEqStrict(d.Arguments, r.args)):
			e.Fail(P, "agree", "deployArgsParser-content", fmt.Sprintf("deployArgsParser.ParseData(%q) = %+v, encoded %+v", s, d, r), "case", s)
		}
		e.Case(fmt.Sprintf("deploy:ok%v", err == nil))
	}
	// storage updates
	var su []*vmcommon.StorageUpdate
	if p := guard(func() { su, err = c12Storage.GetStorageUpdates(s) }); p != nil {
		e.Fail(P, "total", "storageUpdatesParser-panic", fmt.Sprintf("GetStorageUpdates(%q) panicked: %v", s, p), "case", s)
	} else {
		r, ok := refStorage(s)
		canonical := ok && s == strings.ToLower(s) && !strings.HasPrefix(s, "@")
		bad := canonical && err != nil
		if !bad && canonical {
			if len(su) != len(r) {
				bad = true
			}
			for i := 0; !bad && i < len(r); i++ {
				if su[i] == nil || !bytes.Equal(su[i].Offset, r[i][0]) || !bytes.Equal(su[i].Data, r[i][1]) {
					bad = true
				}
			}
		}
		if bad {
			e.Fail(P, "agree", "storageUpdatesParser", fmt.Sprintf("GetStorageUpdates(%q): err=%v %d updates, the reference accepts=%v %d updates", s, err, len(su), ok, len(r)), "case", s)
		}
		if err != nil && su != nil {
			e.Fail(P, "total", "storageUpdatesParser-result-and-error", fmt.Sprintf("GetStorageUpdates(%q) returned both", s), "case", s)
		}
		e.Case(fmt.Sprintf("storage:ok%v:n%d", err == nil, len(su)))
	}
}

func argsEqStrict(a, b [][]byte) bool {
	if len(a) != len(b) {
		return false
	}
	for i := range a {
		if !bytes.Equal(a[i], b[i]) {
			return false
		}
	}
	return true
}

// ---------------------------------------------------------------------------------------------

// wrapResidues lists every n with 3n+1 or 3n+2 (mod 2^64) <= 12: the transfer counts for which the
// argument-count arithmetic of the multi-transfer wraps around to a small number.
func wrapResidues() [][]byte {
	two64 := new(big.Int).Lsh(big.NewInt(1), 64)
	seen := map[string]bool{}
	var out [][]byte
	for k := int64(1); k <= 2; k++ {
		for s := int64(0); s <= 12; s++ {
			for c := int64(1); c <= 2; c++ {
				num := new(big.Int).Mul(two64, big.NewInt(k))
				num.Add(num, big.NewInt(s-c))
				if new(big.Int).Mod(num, big.NewInt(3)).Sign() != 0 {
					continue
				}
				n := num.Div(num, big.NewInt(3))
				if n.Sign() <= 0 || n.Cmp(two64) >= 0 || seen[n.String()] {
					continue
				}
				seen[n.String()] = true
				out = append(out, n.Bytes())
			}
		}
	}
	return out
}

func c12Pool() [][]byte {
	n5 := new(big.Int).SetUint64(0x5555555555555556).Bytes() // 3n+2 = 4 (mod 2^64) ... see below
	n4 := new(big.Int).SetUint64(0x5555555555555557).Bytes()
	nA := new(big.Int).SetUint64(0xAAAAAAAAAAAAAAAB).Bytes() // 3n+1 = 2 (mod 2^64)
	valid, _ := (&esdt.ESDigitalToken{Type: 1, Value: big.NewInt(2), TokenMetaData: &esdt.MetaData{Nonce: 1, Hash: []byte("h")}}).Marshal()
	noValue := []byte{0x08, 0x01, 0x22, 0x02, 0x08, 0x01} // Type + metadata, Value field absent
	truncated := valid[:len(valid)-2]
	return [][]byte{{}, {0}, {1}, {2}, []byte(tF), n5, n4, nA, {1, 0, 0, 0, 0, 0, 0, 0, 1}, valid, noValue, truncated}
}

func checkTransferParse(e *Enum, tp vmcommon.ESDTTransferParser, fn string, same bool, args [][]byte) {
	const P = "C12"
	snd, rcv := []byte("sender-address-0123456789abcdef0"), []byte("receiver-address-123456789abcdef")
	if same {
		rcv = snd
	}
	var res *vmcommon.ParsedESDTTransfers
	var err error
	id := func() string {
		var h []string
		for _, a := range args {
			h = append(h, hex.EncodeToString(a))
		}
		return fmt.Sprintf("%s same=%v @%s", fn, same, strings.Join(h, "@"))
	}
	if p := guard(func() { res, err = tp.ParseESDTTransfers(snd, rcv, fn, args) }); p != nil {
		cls := "other"
		msg := fmt.Sprint(p)
		switch {
		case strings.Contains(msg, "makeslice"):
			cls = "count-overflow"
		case strings.Contains(msg, "nil pointer"):
			cls = "nil-value"
		case strings.Contains(msg, "out of range"):
			cls = "index"
		}
		e.Fail(P, "total", "esdtTransferParser-panic:"+cls, fmt.Sprintf("ParseESDTTransfers(%s) panicked: %v", id(), p), "case", id())
		e.Case("transfer:panic")
		return
	}
	if (res == nil) == (err == nil) {
		e.Fail(P, "total", "esdtTransferParser-result-xor-error", fmt.Sprintf("ParseESDTTransfers(%s): result=%v err=%v", id(), res != nil, err), "case", id())
	}
	if res != nil && len(res.ESDTTransfers) > len(args) {
		e.Fail(P, "total", "esdtTransferParser-count-proportional", fmt.Sprintf("ParseESDTTransfers(%s) returned %d transfers for %d arguments", id(), len(res.ESDTTransfers), len(args)), "case", id())
	}
	// Agreement of the parser's report with the ledger on accepted calls is C10's clause; here only
	// totality is asserted. For calls the reference reads, the parser must not fail (it is total
	// on well-formed calls) - what it reports for them is compared with the ledger in C10.
	if _, ok := spec.ParseTransfer(fn, snd, rcv, args, same || fn == vmcommon.BuiltInFunctionESDTTransfer); ok && fn != "Other" && res == nil {
		e.Fail(P, "agree", "esdtTransferParser-rejects-readable-call", fmt.Sprintf("ParseESDTTransfers(%s) fails (%v) on a call the reference reads", id(), err), "case", id())
	}
	e.Case(fmt.Sprintf("transfer:%s:same%v:ok%v:n%d", fn, same, err == nil, func() int {
		if res == nil {
			return -1
		}
		return len(res.ESDTTransfers)
	}()))
}

// C12 decides "transaction-data parsers are total and inverse to the builders".
func C12(tier Tier) int {
	start := time.Now()
	const P = "C12"
	ws := make([]*Enum, NumWorkers())
	for i := range ws {
		ws[i] = NewEnum()
	}
	// (i) every string of length 0..L over {x, @, 0, a, A}
	sigma := []byte{'x', '@', '0', 'a', 'A'}
	L := 9
	if tier.Thorough() {
		L = 11
	}
	var rec func(e *Enum, s []byte, depth int)
	rec = func(e *Enum, s []byte, depth int) {
		checkString(e, string(s))
		if depth == 0 {
			return
		}
		for _, c := range sigma {
			rec(e, append(s, c), depth-1)
		}
	}
	checkString(ws[0], "")
	for _, c := range sigma {
		checkString(ws[0], string([]byte{c}))
	}
	Parallel(25, func(wk, i int) { rec(ws[wk], []byte{sigma[i/5], sigma[i%5]}, L-2) })
	// second alphabet: bytes outside ASCII, control bytes and the characters next to the hexadecimal
	// ranges ('/', ':', 'G', 'g', '`'), length 0..L2
	{
		sigma2 := []byte{'@', 'a', 'f', 0xff, 0x80, 0xc3, 0x00, '/', ':', 'G', 'g', '`'}
		L2 := 5
		if tier.Thorough() {
			L2 = 6
		}
		var rec2 func(e *Enum, s []byte, depth int)
		rec2 = func(e *Enum, s []byte, depth int) {
			checkString(e, string(s))
			if depth == 0 {
				return
			}
			for _, c := range sigma2 {
				rec2(e, append(s, c), depth-1)
			}
		}
		n2 := len(sigma2)
		Parallel(n2*n2, func(wk, i int) { rec2(ws[wk], []byte{sigma2[i/n2], sigma2[i%n2]}, L2-2) })
		for _, c := range sigma2 {
			checkString(ws[0], string([]byte{c}))
		}
	}
	ws[0].Sample(map[string]interface{}{"string": "x@0a@@A0", "reference": "function x, args [0a, <empty>, a0]"})
	// (ii) ParseESDTTransfers over all argument lists of bounded length
	pool := c12Pool()
	maxLen := 5
	if tier.Thorough() {
		maxLen = 6
	}
	tp, _ := parsers.NewESDTTransferParser(&world.ProtoMarshalizer{})
	fns := []string{vmcommon.BuiltInFunctionESDTTransfer, vmcommon.BuiltInFunctionESDTNFTTransfer, vmcommon.BuiltInFunctionMultiESDTNFTTransfer, "Other"}
	var lists func(e *Enum, cur [][]byte, depth int)
	lists = func(e *Enum, cur [][]byte, depth int) {
		for _, fn := range fns {
			for _, same := range []bool{false, true} {
				checkTransferParse(e, tp, fn, same, cur)
			}
		}
		if depth == 0 {
			return
		}
		for _, it := range pool {
			lists(e, append(append([][]byte{}, cur...), it), depth-1)
		}
	}
	lists(ws[0], nil, 0)
	Parallel(len(pool)*len(pool), func(wk, i int) {
		if i%len(pool) == 0 {
			lists(ws[wk], [][]byte{pool[i/len(pool)]}, 0)
		}
		lists(ws[wk], [][]byte{pool[i/len(pool)], pool[i%len(pool)]}, maxLen-2)
	})
	// every wrap-around residue in the two count positions, the rest over a reduced pool
	{
		res := wrapResidues()
		small := [][]byte{{}, {1}, []byte(tF), pool[9], pool[10], {0}}
		Parallel(len(res), func(wk, ri int) {
			var rest func(cur [][]byte, depth int)
			rest = func(cur [][]byte, depth int) {
				for _, fn := range fns[:3] {
					for _, same := range []bool{false, true} {
						checkTransferParse(ws[wk], tp, fn, same, append([][]byte{res[ri]}, cur...))
						checkTransferParse(ws[wk], tp, fn, same, append([][]byte{[]byte("sender-address-0123456789abcdef0"), res[ri]}, cur...))
					}
				}
				if depth == 0 {
					return
				}
				for _, it := range small {
					rest(append(append([][]byte{}, cur...), it), depth-1)
				}
			}
			rest(nil, 4)
		})
	}
	ws[0].Sample(map[string]interface{}{"function": "MultiESDTNFTTransfer", "args": []string{"5555555555555556", "46", "01", "<payload without Value>"}, "expect": "error or result, no panic"})
	// (iii) round trips
	rt := NewEnum()
	nameAlpha := []byte{'f', '_', '0', 'G'}
	var names []string
	for a := 0; a < 4; a++ {
		names = append(names, string([]byte{nameAlpha[a]}))
		for b := 0; b < 4; b++ {
			names = append(names, string([]byte{nameAlpha[a], nameAlpha[b]}))
			for c := 0; c < 4; c++ {
				names = append(names, string([]byte{nameAlpha[a], nameAlpha[b], nameAlpha[c]}))
			}
		}
	}
	argPool := [][]byte{{}, {0}, {0x0a}, {0xff, 0}, {0x40}}
	var argLists [][][]byte
	var gen func(cur [][]byte, depth int)
	gen = func(cur [][]byte, depth int) {
		argLists = append(argLists, cur)
		if depth == 0 {
			return
		}
		for _, a := range argPool {
			gen(append(append([][]byte{}, cur...), a), depth-1)
		}
	}
	gen(nil, 4)
	for _, name := range names {
		for _, al := range argLists {
			b := txDataBuilder.NewBuilder().Func(name)
			for _, a := range al {
				b.Bytes(a)
			}
			s := b.ToString()
			fn, args, err := c12Call.ParseData(s)
			if err != nil || fn != name || !argsEqStrict(args, al) {
				rt.Fail(P, "roundtrip", "builder-parse", fmt.Sprintf("build(%q,%x) = %q parses to %q %x (%v)", name, al, s, fn, args, err), "case", s)
			}
			// build(parse(s)) == s for lower-case s
			b2 := txDataBuilder.NewBuilder().Func(fn)
			for _, a := range args {
				b2.Bytes(a)
			}
			if b2.ToString() != s {
				rt.Fail(P, "roundtrip", "parse-build", fmt.Sprintf("%q re-builds to %q", s, b2.ToString()), "case", s)
			}
			// the built-in functions' own encoder: function + "@" + hex per argument
			own := name
			for _, a := range al {
				own += "@" + hex.EncodeToString(a)
			}
			if own != s {
				rt.Fail(P, "roundtrip", "encoders-differ", fmt.Sprintf("the tx-data builder gives %q, the built-in functions' encoding rule gives %q", s, own), "case", s)
			}
			rt.Case(fmt.Sprintf("rt-call:name%d:args%d", len(name), len(al)))
		}
	}
	// typed elements: every sequence of <= 3 typed appends (Byte, Str, Int, Int64, True/False/Bool,
	// BigInt over boundary values) and the composite helpers, built, parsed with the call-arguments
	// parser and compared with the argument values the methods are documented to append
	{
		cur := txDataBuilder.NewBuilder() // the builder the operations below act on
		type typedOp struct {
			name  string
			apply func()
			args  [][]byte // the values appended, as numbers / byte strings
			num   []bool   // compare as a number (big-endian magnitude) rather than byte for byte
			fn    string   // function name set by the composite helpers ("" = unchanged)
		}
		var ops []typedOp
		one := func(name string, apply func(), v []byte, isNum bool) {
			ops = append(ops, typedOp{name: name, apply: apply, args: [][]byte{v}, num: []bool{isNum}})
		}
		for _, v := range []byte{0, 1, 0x0f, 0x10, 0x40, 0x7f, 0x80, 0xff} {
			v := v
			one(fmt.Sprintf("Byte(%d)", v), func() { cur.Byte(v) }, []byte{v}, false)
		}
		for _, str := range []string{"", "a", "@", "a@b", "\x00", "\xff\x00", "true", "ESDTTransfer", "0a"} {
			str := str
			one(fmt.Sprintf("Str(%q)", str), func() { cur.Str(str) }, []byte(str), false)
		}
		for _, n := range []int64{0, 1, 15, 16, 127, 128, 255, 256, 65535, 65536, 1<<31 - 1, 1 << 31, 1<<32 - 1, 1 << 32, 1 << 62, 1<<63 - 1} {
			n := n
			one(fmt.Sprintf("Int(%d)", n), func() { cur.Int(int(n)) }, big.NewInt(n).Bytes(), true)
			one(fmt.Sprintf("Int64(%d)", n), func() { cur.Int64(n) }, big.NewInt(n).Bytes(), true)
		}
		one("True", func() { cur.True() }, []byte("true"), false)
		one("False", func() { cur.False() }, []byte("false"), false)
		one("Bool(true)", func() { cur.Bool(true) }, []byte("true"), false)
		one("Bool(false)", func() { cur.Bool(false) }, []byte("false"), false)
		for _, v := range []*big.Int{big.NewInt(0), big.NewInt(1), big.NewInt(256), new(big.Int).Lsh(big.NewInt(1), 64), new(big.Int).Sub(new(big.Int).Lsh(big.NewInt(1), 64), big.NewInt(1)), new(big.Int).Lsh(big.NewInt(1), 100)} {
			v := v
			one("BigInt("+v.String()+")", func() { cur.BigInt(v) }, v.Bytes(), true)
		}
		flag := func(name string, apply func(v bool)) {
			for _, v := range []bool{true, false} {
				v := v
				val := "false"
				if v {
					val = "true"
				}
				ops = append(ops, typedOp{name: fmt.Sprintf("%s(%v)", name, v), apply: func() { apply(v) }, args: [][]byte{[]byte("can" + name[3:]), []byte(val)}, num: []bool{false, false}})
			}
		}
		flag("CanFreeze", func(v bool) { cur.CanFreeze(v) })
		flag("CanWipe", func(v bool) { cur.CanWipe(v) })
		flag("CanPause", func(v bool) { cur.CanPause(v) })
		flag("CanMint", func(v bool) { cur.CanMint(v) })
		flag("CanBurn", func(v bool) { cur.CanBurn(v) })
		flag("CanTransferNFTCreateRole", func(v bool) { cur.CanTransferNFTCreateRole(v) })
		flag("CanAddSpecialRoles", func(v bool) { cur.CanAddSpecialRoles(v) })
		for _, tok := range []string{"TKN-0a0b0c", "F", ""} {
			for _, q := range []int64{0, 1, 255, 256, 1 << 32, 1<<63 - 1} {
				tok, q := tok, q
				ops = append(ops,
					typedOp{name: fmt.Sprintf("TransferESDT(%q,%d)", tok, q), apply: func() { cur.TransferESDT(tok, q) }, fn: vmcommon.BuiltInFunctionESDTTransfer, args: [][]byte{[]byte(tok), big.NewInt(q).Bytes()}, num: []bool{false, true}},
					typedOp{name: fmt.Sprintf("BurnESDT(%q,%d)", tok, q), apply: func() { cur.BurnESDT(tok, q) }, fn: vmcommon.BuiltInFunctionESDTBurn, args: [][]byte{[]byte(tok), big.NewInt(q).Bytes()}, num: []bool{false, true}},
					typedOp{name: fmt.Sprintf("IssueESDT(%q,%d)", tok, q), apply: func() { cur.IssueESDT(tok, "TK", q, 18) }, fn: "issue", args: [][]byte{[]byte(tok), []byte("TK"), big.NewInt(q).Bytes(), {18}}, num: []bool{false, false, true, false}})
				for _, nonce := range []int{0, 1, 255, 256, 65536} {
					nonce := nonce
					ops = append(ops, typedOp{name: fmt.Sprintf("TransferESDTNFT(%q,%d,%d)", tok, nonce, q), apply: func() { cur.TransferESDTNFT(tok, nonce, q) }, fn: vmcommon.BuiltInFunctionESDTNFTTransfer,
						args: [][]byte{[]byte(tok), big.NewInt(int64(nonce)).Bytes(), big.NewInt(q).Bytes()}, num: []bool{false, true, true}})
				}
			}
		}
		checkTyped := func(seq []int) {
			cur = txDataBuilder.NewBuilder().Func("fn")
			fn := "fn"
			var want [][]byte
			var isNum []bool
			desc := ""
			for _, i := range seq {
				ops[i].apply()
				if ops[i].fn != "" {
					fn = ops[i].fn
				}
				want = append(want, ops[i].args...)
				isNum = append(isNum, ops[i].num...)
				desc += ops[i].name + " "
			}
			b := cur
			str := b.ToString()
			if string(b.ToBytes()) != str {
				rt.Fail(P, "roundtrip", "builder-typed:ToBytes", fmt.Sprintf("after %s ToBytes gives %q, ToString %q", desc, b.ToBytes(), str), "case", desc)
			}
			gfn, gargs, err := c12Call.ParseData(str)
			ok := err == nil && gfn == fn && len(gargs) == len(want)
			if ok {
				for k := range want {
					if isNum[k] {
						ok = ok && new(big.Int).SetBytes(gargs[k]).Cmp(new(big.Int).SetBytes(want[k])) == 0
					} else {
						ok = ok && bytes.Equal(gargs[k], want[k])
					}
				}
			}
			if !ok {
				rt.Fail(P, "roundtrip", "builder-typed", fmt.Sprintf("Func(\"fn\") %s builds %q, which parses to %q %x (%v); the methods describe %q %x", desc, str, gfn, gargs, err, fn, want), "case", desc)
			}
			if len(seq) > 0 {
				// the last element as text is the hex form of the last value appended
				if last, err := hex.DecodeString(b.GetLast()); err != nil || (isNum[len(isNum)-1] && new(big.Int).SetBytes(last).Cmp(new(big.Int).SetBytes(want[len(want)-1])) != 0) || (!isNum[len(isNum)-1] && !bytes.Equal(last, want[len(want)-1])) {
					rt.Fail(P, "roundtrip", "builder-typed:GetLast", fmt.Sprintf("after %s GetLast gives %q, the last value appended is %x", desc, b.GetLast(), want[len(want)-1]), "case", desc)
				}
			}
			rt.Case(fmt.Sprintf("rt-typed:len%d:args%d", len(seq), len(want)))
		}
		checkTyped(nil)
		for i := range ops {
			checkTyped([]int{i})
			for j := range ops {
				checkTyped([]int{i, j})
			}
		}
		// triples over the elementary appends only
		var elem []int
		for i, o := range ops {
			if len(o.args) == 1 {
				elem = append(elem, i)
			}
		}
		for _, i := range elem {
			for _, j := range elem {
				for _, k := range elem {
					if !tier.Thorough() && (i+j+k)%3 != 0 {
						continue
					}
					checkTyped([]int{i, j, k})
				}
			}
		}
	}
	// one builder instance used for several strings: every operation sequence up to the bound over
	// {Func, Bytes, Clear (as a statement and chained), SetLast}, against a (function, elements) model
	{
		depth := 6
		if tier.Thorough() {
			depth = 8
		}
		const nOps = 9
		var seq []int
		var walk func()
		walk = func() {
			b := txDataBuilder.NewBuilder()
			mfn, melems := "", []string{}
			clears := 0
			for _, o := range seq {
				switch o {
				case 0:
					b.Func("f")
					mfn = "f"
				case 1:
					b.Func("gh")
					mfn = "gh"
				case 2:
					b.Bytes([]byte{})
					melems = append(melems, "")
				case 3:
					b.Bytes([]byte{0x0a})
					melems = append(melems, "0a")
				case 4:
					b.Bytes([]byte{0xff, 0})
					melems = append(melems, "ff00")
				case 5:
					b.Clear() // documented use: resets the internal state of this builder
					mfn, melems = "", []string{}
					clears++
				case 6:
					b = b.Clear()
					mfn, melems = "", []string{}
					clears++
				case 8:
					// render in the middle of the sequence (a cached rendering must not survive later
					// operations)
					if got, want := b.ToString(), renderModel(mfn, melems); got != want {
						rt.Fail(P, "roundtrip", "builder-sequence", fmt.Sprintf("one builder in the middle of the operations %v produces %q, the operations so far describe %q", seq, got, want), "case", fmt.Sprintf("ops%v", seq))
					}
				case 7:
					b.SetLast("0b")
					if len(melems) == 0 {
						melems = []string{"0b"}
					} else {
						melems[len(melems)-1] = "0b"
					}
				}
			}
			want := mfn
			var wantArgs [][]byte
			for _, e := range melems {
				want += "@" + e
				d, _ := hex.DecodeString(e)
				wantArgs = append(wantArgs, d)
			}
			got := b.ToString()
			id := fmt.Sprintf("ops%v", seq)
			if got != want || string(b.ToBytes()) != want {
				rt.Fail(P, "roundtrip", "builder-sequence", fmt.Sprintf("one builder after the operations %v (0/1 Func, 2-4 Bytes, 5 Clear, 6 b=Clear, 7 SetLast, 8 ToString) produces %q, the operations describe %q", seq, got, want), "case", id)
			}
			last := ""
			if len(melems) > 0 {
				last = melems[len(melems)-1]
			}
			if b.GetLast() != last {
				rt.Fail(P, "roundtrip", "builder-sequence-last", fmt.Sprintf("after %v GetLast gives %q, expected %q", seq, b.GetLast(), last), "case", id)
			}
			if mfn != "" {
				fn, args, err := c12Call.ParseData(got)
				if err != nil || fn != mfn || !argsEqStrict(args, wantArgs) {
					rt.Fail(P, "roundtrip", "builder-sequence-parse", fmt.Sprintf("after %v the builder's string %q parses to %q %x (%v), it was given %q %x", seq, got, fn, args, err, mfn, wantArgs), "case", id)
				}
			}
			rt.Case(fmt.Sprintf("rt-builder-seq:len%d:clears%d", len(seq), clears))
			if len(seq) == depth {
				return
			}
			for o := 0; o < nOps; o++ {
				seq = append(seq, o)
				walk()
				seq = seq[:len(seq)-1]
			}
		}
		walk()
	}
	// two builders used side by side: every interleaving of their operations up to the bound; each
	// must produce what it alone was given
	{
		depth := 5
		if tier.Thorough() {
			depth = 6
		}
		const per = 6 // Func f, Bytes 0a, Bytes ff00, Clear, SetLast 0b, b = NewBuilder()
		var seq []int
		var walk2 func()
		walk2 = func() {
			bs := [2]interface {
				ToString() string
				GetLast() string
			}{}
			b0, b1 := txDataBuilder.NewBuilder(), txDataBuilder.NewBuilder()
			type model struct {
				fn    string
				elems []string
			}
			var m [2]model
			for _, o := range seq {
				who, op := o/per, o%per
				b := b0
				if who == 1 {
					b = b1
				}
				switch op {
				case 0:
					b.Func("f")
					m[who].fn = "f"
				case 1:
					b.Bytes([]byte{0x0a})
					m[who].elems = append(m[who].elems, "0a")
				case 2:
					b.Bytes([]byte{0xff, 0})
					m[who].elems = append(m[who].elems, "ff00")
				case 3:
					b.Clear()
					m[who] = model{}
				case 4:
					b.SetLast("0b")
					if len(m[who].elems) == 0 {
						m[who].elems = []string{"0b"}
					} else {
						m[who].elems = append(append([]string{}, m[who].elems[:len(m[who].elems)-1]...), "0b")
					}
				case 5:
					if who == 0 {
						b0 = txDataBuilder.NewBuilder()
					} else {
						b1 = txDataBuilder.NewBuilder()
					}
					m[who] = model{}
				}
			}
			bs[0], bs[1] = b0, b1
			for who := 0; who < 2; who++ {
				want := renderModel(m[who].fn, m[who].elems)
				if got := bs[who].ToString(); got != want {
					rt.Fail(P, "roundtrip", "two-builders", fmt.Sprintf("two builders used side by side, operations %v (builder = op/6; 0 Func, 1-2 Bytes, 3 Clear, 4 SetLast, 5 new builder): builder %d produces %q, it alone was given %q", seq, who, got, want), "case", fmt.Sprintf("two%v", seq))
				}
			}
			rt.Case(fmt.Sprintf("rt-two-builders:len%d", len(seq)))
			if len(seq) == depth {
				return
			}
			for o := 0; o < 2*per; o++ {
				seq = append(seq, o)
				walk2()
				seq = seq[:len(seq)-1]
			}
		}
		walk2()
	}
	// typed builder elements
	typed := txDataBuilder.NewBuilder().Func("f").Str("tok").Int(0).Int(255).Int64(1 << 40).BigInt(new(big.Int).Lsh(big.NewInt(1), 64)).Byte(0).Byte(0x40).Bool(true).Bool(false)
	if fn, args, err := c12Call.ParseData(typed.ToString()); err != nil || fn != "f" || !argsEqStrict(args, [][]byte{[]byte("tok"), {}, {255}, {1, 0, 0, 0, 0, 0}, {1, 0, 0, 0, 0, 0, 0, 0, 0}, {0}, {0x40}, []byte("true"), []byte("false")}) {
		rt.Fail(P, "roundtrip", "typed-builder", fmt.Sprintf("typed builder string %q parses to %q %x (%v)", typed.ToString(), fn, args, err), "case", typed.ToString())
	}
	rt.Case("rt-typed")
	// deploy data
	for _, code := range [][]byte{{0xc0}, {1, 2, 3}} {
		for flags := 0; flags < 8; flags++ {
			md := vmcommon.CodeMetadata{Upgradeable: flags&1 != 0, Readable: flags&2 != 0, Payable: flags&4 != 0}
			for _, al := range argLists {
				if len(al) > 3 {
					continue
				}
				s := hex.EncodeToString(code) + "@0500@" + hex.EncodeToString(md.ToBytes())
				for _, a := range al {
					s += "@" + hex.EncodeToString(a)
				}
				d, err := c12Deploy.ParseData(s)
				if err != nil || d == nil || !bytes.Equal(d.Code, code) || !bytes.Equal(d.VMType, []byte{5, 0}) || d.CodeMetadata != md || !argsEqStrict(d.Arguments, al) {
					rt.Fail(P, "roundtrip", "deploy", fmt.Sprintf("deploy data %q does not survive the round trip (%v)", s, err), "case", s)
				}
				rt.Case(fmt.Sprintf("rt-deploy:flags%d:args%d", flags, len(al)))
			}
		}
	}
	// storage-update lists (first offset non-empty: a leading '@' is the separator prefix)
	kvPool := [][]byte{{}, {0}, {0x40}, []byte("ky")}
	var suLists [][]*vmcommon.StorageUpdate
	var genSU func(cur []*vmcommon.StorageUpdate, depth int)
	genSU = func(cur []*vmcommon.StorageUpdate, depth int) {
		if len(cur) > 0 {
			suLists = append(suLists, cur)
		}
		if depth == 0 {
			return
		}
		for _, k := range kvPool {
			for _, v := range kvPool {
				if len(cur) == 0 && len(k) == 0 {
					continue
				}
				genSU(append(append([]*vmcommon.StorageUpdate{}, cur...), &vmcommon.StorageUpdate{Offset: k, Data: v}), depth-1)
			}
		}
	}
	genSU(nil, 3)
	for _, l := range suLists {
		s := c12Storage.CreateDataFromStorageUpdate(l)
		back, err := c12Storage.GetStorageUpdates(s)
		bad := err != nil || len(back) != len(l)
		for i := 0; !bad && i < len(l); i++ {
			if !bytes.Equal(back[i].Offset, l[i].Offset) || !bytes.Equal(back[i].Data, l[i].Data) {
				bad = true
			}
		}
		if bad {
			rt.Fail(P, "roundtrip", "storage-updates", fmt.Sprintf("storage-update list encoded as %q does not survive the round trip (%v)", s, err), "case", s)
		}
		rt.Case(fmt.Sprintf("rt-storage:%d", len(l)))
	}
	rt.Sample(map[string]interface{}{"built": "f_0@@00@0a", "parsed": "f_0 [<empty>, 00, 0a]"})
	total := int64(0)
	for l, p := 0, int64(1); l <= L; l, p = l+1, p*5 {
		total += p
	}
	return FinishEnum(P, tier, "exploration", start,
		fmt.Sprintf("exhaustive: every string of length 0..%d over {x,@,0,a,A} (%d strings) into the three string parsers against a reference tokenizer; ParseESDTTransfers for 4 function names x sender=/!=receiver x every argument list of length 0..%d over a %d-item adversarial pool (wrap-around counts, payloads with/without Value, truncated); round trips of %d function names x %d argument lists through the tx-data builder and the built-in encoder rule, deploy data (8 flag combinations) and storage-update lists of length 1..3. A class is distinct by (parser, accept/reject, result size)", L, total, maxLen, len(pool), len(names), len(argLists)),
		[]string{"function names contain no '@' (excluded by the statement); an empty first storage offset is not representable (leading '@' is a separator prefix) and is excluded from the round-trip domain", "the reference tokenizer is trusted"},
		true, nil, []string{"call:oktrue:args2", "call:okfalse:args0", "call:canonical:args2", "deploy:oktrue", "storage:oktrue:n1", "rt-typed"}, append(ws, rt)...)
}

func renderModel(fn string, elems []string) string {
	s := fn
	for _, e := range elems {
		s += "@" + e
	}
	return s
}
