package checks

import (
	"bytes"
	"fmt"
	"sort"
	"time"

	vmcommon "github.com/ElrondNetwork/elrond-vm-common"

	"verif/engine/spec"
	"verif/engine/uni"
	"verif/engine/world"
)

// the protocol's 23 built-in function names
var protocolNames = []string{
	vmcommon.BuiltInFunctionClaimDeveloperRewards, vmcommon.BuiltInFunctionChangeOwnerAddress, vmcommon.BuiltInFunctionSetUserName,
	vmcommon.BuiltInFunctionSaveKeyValue, vmcommon.BuiltInFunctionESDTTransfer, vmcommon.BuiltInFunctionESDTBurn, vmcommon.BuiltInFunctionESDTFreeze,
	vmcommon.BuiltInFunctionESDTUnFreeze, vmcommon.BuiltInFunctionESDTWipe, vmcommon.BuiltInFunctionESDTPause, vmcommon.BuiltInFunctionESDTUnPause,
	vmcommon.BuiltInFunctionSetESDTRole, vmcommon.BuiltInFunctionUnSetESDTRole, vmcommon.BuiltInFunctionESDTLocalMint, vmcommon.BuiltInFunctionESDTLocalBurn,
	vmcommon.BuiltInFunctionESDTNFTTransfer, vmcommon.BuiltInFunctionESDTNFTCreate, vmcommon.BuiltInFunctionESDTNFTAddQuantity, vmcommon.BuiltInFunctionESDTNFTCreateRoleTransfer,
	vmcommon.BuiltInFunctionESDTNFTBurn, vmcommon.BuiltInFunctionESDTNFTAddURI, vmcommon.BuiltInFunctionESDTNFTUpdateAttributes, vmcommon.BuiltInFunctionMultiESDTNFTTransfer,
}

// functions whose discriminating scenario is charged exactly their own entry
var simplePriced = map[string]string{
	vmcommon.BuiltInFunctionClaimDeveloperRewards: "ClaimDeveloperRewards", vmcommon.BuiltInFunctionChangeOwnerAddress: "ChangeOwnerAddress",
	vmcommon.BuiltInFunctionSetUserName: "SaveUserName", vmcommon.BuiltInFunctionESDTTransfer: "ESDTTransfer", vmcommon.BuiltInFunctionESDTBurn: "ESDTBurn",
	vmcommon.BuiltInFunctionESDTLocalMint: "ESDTLocalMint", vmcommon.BuiltInFunctionESDTLocalBurn: "ESDTLocalBurn",
	vmcommon.BuiltInFunctionESDTNFTAddQuantity: "ESDTNFTAddQuantity", vmcommon.BuiltInFunctionESDTNFTBurn: "ESDTNFTBurn",
}

var epochGated = map[string]bool{
	vmcommon.BuiltInFunctionESDTNFTAddURI: true, vmcommon.BuiltInFunctionESDTNFTUpdateAttributes: true, vmcommon.BuiltInFunctionMultiESDTNFTTransfer: true,
}

// binding is the name-specific effect that discriminates each registered function.
type binding struct {
	name  string
	build func(env *world.Env, base *world.World) (*world.World, world.Action)
	check func(pre, post *world.World, leg *world.Leg) string // "" = behaves as that name must
}

func deltaIs(pre, post *world.World, want map[string]int64) string {
	d := spec.Delta(spec.Balances(pre), spec.Balances(post))
	if len(d) != len(want) {
		return "balance diff " + spec.FmtDelta(d, uni.Name)
	}
	for k, v := range want {
		if d[k] == nil || !d[k].IsInt64() || d[k].Int64() != v {
			return "balance diff " + spec.FmtDelta(d, uni.Name)
		}
	}
	return ""
}

func bindings() []binding {
	A0, B0, S0 := uni.A0, uni.B0, uni.S0
	same := func(w *world.World) func(*world.Env, *world.World) (*world.World, world.Action) { return nil }
	_ = same
	on := func(act world.Action) func(*world.Env, *world.World) (*world.World, world.Action) {
		return func(_ *world.Env, base *world.World) (*world.World, world.Action) { return base, act }
	}
	afterThen := func(first world.Action, act world.Action) func(*world.Env, *world.World) (*world.World, world.Action) {
		return func(env *world.Env, base *world.World) (*world.World, world.Action) {
			b := &uni.Builder{Env: env, W: base}
			b.Must(first)
			return b.W, act
		}
	}
	k := spec.BalKey
	return []binding{
		{vmcommon.BuiltInFunctionClaimDeveloperRewards, on(uni.Call(A0, S0, vmcommon.BuiltInFunctionClaimDeveloperRewards)), func(pre, post *world.World, _ *world.Leg) string {
			if post.Get(S0).DevReward.Sign() != 0 || post.Get(A0).Balance.Cmp(pre.Get(S0).DevReward) != 0 || !bytes.Equal(post.Get(S0).Owner, A0) {
				return "developer reward not moved to the owner"
			}
			return ""
		}},
		{vmcommon.BuiltInFunctionChangeOwnerAddress, on(uni.Call(A0, S0, vmcommon.BuiltInFunctionChangeOwnerAddress, B0)), func(pre, post *world.World, _ *world.Leg) string {
			if !bytes.Equal(post.Get(S0).Owner, B0) || post.Get(S0).DevReward.Cmp(pre.Get(S0).DevReward) != 0 {
				return "owner not changed to the given address"
			}
			return ""
		}},
		{vmcommon.BuiltInFunctionSetUserName, on(uni.Call(uni.D0, B0, vmcommon.BuiltInFunctionSetUserName, []byte("nm"))), func(_, post *world.World, _ *world.Leg) string {
			if string(post.Get(B0).UserName) != "nm" {
				return "user name not set"
			}
			return ""
		}},
		{vmcommon.BuiltInFunctionSaveKeyValue, on(uni.Call(A0, A0, vmcommon.BuiltInFunctionSaveKeyValue, []byte("key"), []byte("val"))), func(_, post *world.World, _ *world.Leg) string {
			if string(post.Get(A0).Storage["key"]) != "val" {
				return "pair not stored"
			}
			return ""
		}},
		{vmcommon.BuiltInFunctionESDTTransfer, on(uni.ESDTTransfer(A0, B0, uni.F, 1)), func(pre, post *world.World, _ *world.Leg) string {
			return deltaIs(pre, post, map[string]int64{k(A0, tF): -1, k(B0, tF): 1})
		}},
		{vmcommon.BuiltInFunctionESDTBurn, on(uni.Call(B0, uni.ESDT, vmcommon.BuiltInFunctionESDTBurn, uni.F, uni.Big(1))), func(pre, post *world.World, _ *world.Leg) string {
			return deltaIs(pre, post, map[string]int64{k(B0, tF): -1}) // b0 holds no burn role: only ESDTBurn may do this
		}},
		{vmcommon.BuiltInFunctionESDTFreeze, on(uni.SysCall(B0, vmcommon.BuiltInFunctionESDTFreeze, uni.F)), func(pre, post *world.World, _ *world.Leg) string {
			if !spec.Frozen(post.Get(B0), tF) || deltaIs(pre, post, nil) != "" {
				return "account not frozen with balance intact"
			}
			return ""
		}},
		{vmcommon.BuiltInFunctionESDTUnFreeze, afterThen(uni.SysCall(B0, vmcommon.BuiltInFunctionESDTFreeze, uni.F), uni.SysCall(B0, vmcommon.BuiltInFunctionESDTUnFreeze, uni.F)), func(pre, post *world.World, _ *world.Leg) string {
			if !spec.Frozen(pre.Get(B0), tF) || spec.Frozen(post.Get(B0), tF) || deltaIs(pre, post, nil) != "" {
				return "account not unfrozen with balance intact"
			}
			return ""
		}},
		{vmcommon.BuiltInFunctionESDTWipe, afterThen(uni.SysCall(B0, vmcommon.BuiltInFunctionESDTFreeze, uni.F), uni.SysCall(B0, vmcommon.BuiltInFunctionESDTWipe, uni.F)), func(pre, post *world.World, _ *world.Leg) string {
			if _, still := post.Get(B0).Storage[spec.TokPrefix+tF]; still {
				return "frozen holding not wiped"
			}
			return deltaIs(pre, post, map[string]int64{k(B0, tF): -1})
		}},
		{vmcommon.BuiltInFunctionESDTPause, on(uni.PauseCall(0, vmcommon.BuiltInFunctionESDTPause, uni.F)), func(pre, post *world.World, _ *world.Leg) string {
			if spec.Paused(pre, 0, tF) || !spec.Paused(post, 0, tF) {
				return "token not paused"
			}
			return ""
		}},
		{vmcommon.BuiltInFunctionESDTUnPause, afterThen(uni.PauseCall(0, vmcommon.BuiltInFunctionESDTPause, uni.F), uni.PauseCall(0, vmcommon.BuiltInFunctionESDTUnPause, uni.F)), func(pre, post *world.World, _ *world.Leg) string {
			if !spec.Paused(pre, 0, tF) || spec.Paused(post, 0, tF) {
				return "token not unpaused"
			}
			return ""
		}},
		{vmcommon.BuiltInFunctionSetESDTRole, on(uni.SetRole(B0, uni.F, vmcommon.ESDTRoleLocalMint)), func(pre, post *world.World, _ *world.Leg) string {
			if spec.HasRole(pre.Get(B0), tF, vmcommon.ESDTRoleLocalMint) || !spec.HasRole(post.Get(B0), tF, vmcommon.ESDTRoleLocalMint) {
				return "role not added"
			}
			return ""
		}},
		{vmcommon.BuiltInFunctionUnSetESDTRole, on(uni.UnSetRole(A0, uni.F, vmcommon.ESDTRoleLocalMint)), func(pre, post *world.World, _ *world.Leg) string {
			if !spec.HasRole(pre.Get(A0), tF, vmcommon.ESDTRoleLocalMint) || spec.HasRole(post.Get(A0), tF, vmcommon.ESDTRoleLocalMint) || !spec.HasRole(post.Get(A0), tF, vmcommon.ESDTRoleLocalBurn) {
				return "exactly the given role not removed"
			}
			return ""
		}},
		{vmcommon.BuiltInFunctionESDTLocalMint, on(uni.Call(A0, A0, vmcommon.BuiltInFunctionESDTLocalMint, uni.F, uni.Big(2))), func(pre, post *world.World, _ *world.Leg) string {
			return deltaIs(pre, post, map[string]int64{k(A0, tF): 2})
		}},
		{vmcommon.BuiltInFunctionESDTLocalBurn, on(uni.Call(A0, A0, vmcommon.BuiltInFunctionESDTLocalBurn, uni.F, uni.Big(2))), func(pre, post *world.World, leg *world.Leg) string {
			if len(leg.Outs) != 0 {
				return "local burn emitted a transfer"
			}
			return deltaIs(pre, post, map[string]int64{k(A0, tF): -2})
		}},
		{vmcommon.BuiltInFunctionESDTNFTTransfer, on(uni.NFTTransfer(A0, B0, uni.S, 2, 1)), func(pre, post *world.World, _ *world.Leg) string {
			return deltaIs(pre, post, map[string]int64{k(A0, tS2): -1, k(B0, tS2): 1})
		}},
		{vmcommon.BuiltInFunctionESDTNFTCreate, on(uni.Create(A0, uni.S, 1)), func(pre, post *world.World, leg *world.Leg) string {
			if spec.Counter(post.Get(A0), tS) != spec.Counter(pre.Get(A0), tS)+1 || len(leg.Out.ReturnData) != 1 {
				return "counter not advanced / no nonce returned"
			}
			return deltaIs(pre, post, map[string]int64{k(A0, "S\x03"): 1})
		}},
		{vmcommon.BuiltInFunctionESDTNFTAddQuantity, on(uni.Call(A0, A0, vmcommon.BuiltInFunctionESDTNFTAddQuantity, uni.S, uni.Big(1), uni.Big(2))), func(pre, post *world.World, _ *world.Leg) string {
			return deltaIs(pre, post, map[string]int64{k(A0, tS1): 2})
		}},
		{vmcommon.BuiltInFunctionESDTNFTCreateRoleTransfer, on(uni.SysCall(A0, vmcommon.BuiltInFunctionESDTNFTCreateRoleTransfer, uni.S, B0)), func(pre, post *world.World, _ *world.Leg) string {
			if spec.HasRole(post.Get(A0), tS, vmcommon.ESDTRoleNFTCreate) || !spec.HasRole(post.Get(B0), tS, vmcommon.ESDTRoleNFTCreate) || spec.Counter(post.Get(B0), tS) != spec.Counter(pre.Get(A0), tS) || spec.Counter(post.Get(A0), tS) != 0 {
				return "create role and counter not handed over"
			}
			return ""
		}},
		{vmcommon.BuiltInFunctionESDTNFTBurn, on(uni.Call(A0, A0, vmcommon.BuiltInFunctionESDTNFTBurn, uni.S, uni.Big(1), uni.Big(2))), func(pre, post *world.World, _ *world.Leg) string {
			return deltaIs(pre, post, map[string]int64{k(A0, tS1): -2})
		}},
		{vmcommon.BuiltInFunctionESDTNFTAddURI, on(uni.Call(A0, A0, vmcommon.BuiltInFunctionESDTNFTAddURI, uni.S, uni.Big(1), []byte("new-uri"))), func(pre, post *world.World, _ *world.Leg) string {
			a, b := spec.Entry(pre.Get(A0), tS1), spec.Entry(post.Get(A0), tS1)
			if a == nil || b == nil || len(b.TokenMetaData.URIs) != len(a.TokenMetaData.URIs)+1 || string(b.TokenMetaData.URIs[len(b.TokenMetaData.URIs)-1]) != "new-uri" || !bytes.Equal(a.TokenMetaData.Attributes, b.TokenMetaData.Attributes) {
				return "URI not appended"
			}
			return ""
		}},
		{vmcommon.BuiltInFunctionESDTNFTUpdateAttributes, on(uni.Call(A0, A0, vmcommon.BuiltInFunctionESDTNFTUpdateAttributes, uni.S, uni.Big(1), []byte("new-attr"))), func(pre, post *world.World, _ *world.Leg) string {
			a, b := spec.Entry(pre.Get(A0), tS1), spec.Entry(post.Get(A0), tS1)
			if a == nil || b == nil || string(b.TokenMetaData.Attributes) != "new-attr" || len(b.TokenMetaData.URIs) != len(a.TokenMetaData.URIs) {
				return "attributes not replaced"
			}
			return ""
		}},
		{vmcommon.BuiltInFunctionMultiESDTNFTTransfer, on(uni.Multi(A0, B0, []uni.Ent{{Tok: uni.S, Nonce: 1, Q: 1}, {Tok: uni.F, Nonce: 0, Q: 2}})), func(pre, post *world.World, _ *world.Leg) string {
			return deltaIs(pre, post, map[string]int64{k(A0, tS1): -1, k(B0, tS1): 1, k(A0, tF): -2, k(B0, tF): 2})
		}},
	}
}

// C18 decides "activation follows confirmed epochs; registry complete and correctly bound".
func C18(tier Tier) int {
	start := time.Now()
	const P = "C18"
	activations := []uint32{0, 1, 2, 3, 1 << 31, 1<<32 - 1}
	epochs := []uint32{0, 1, 2, 3, 4, 1 << 31, 1<<32 - 1}
	L := 5
	if tier.Thorough() {
		L = 7
	}
	ws := make([]*Enum, NumWorkers())
	for i := range ws {
		ws[i] = NewEnum()
	}
	// all sequences of exactly L notifications (every shorter sequence is one of their prefixes,
	// and every prefix is checked)
	nseq := 1
	for i := 0; i < L; i++ {
		nseq *= len(epochs)
	}
	stateSets := make([]map[string]bool, NumWorkers())
	for i := range stateSets {
		stateSets[i] = map[string]bool{}
	}
	// the header timestamp that accompanies a notification is not part of the rule; four policies:
	// always 0, proportional to the epoch (as block headers are: a regression carries a lower
	// timestamp), ascending and descending with the position in the sequence
	const policies = 4
	Parallel(nseq*len(activations)*policies, func(wk, idx int) {
		e := ws[wk]
		policy := idx % policies
		idx /= policies
		act := activations[idx%len(activations)]
		code := idx / len(activations)
		env, err := world.NewEnv(world.EnvConfig{NumShards: 1, ActivationEpoch: act})
		if err != nil {
			panic(err)
		}
		c := env.Shards[0].Container
		var seq []uint32
		for step := 0; step < L; step++ {
			ep := epochs[code%len(epochs)]
			code /= len(epochs)
			seq = append(seq, ep)
			var ts uint64
			switch policy {
			case 1:
				ts = 1000 + uint64(ep)*600
			case 2:
				ts = 1000 + uint64(step)
			case 3:
				ts = 1000 - uint64(step)
			}
			env.ConfirmEpochAt(ep, ts)
			want := ep >= act
			for _, name := range protocolNames {
				f, gerr := c.Get(name)
				if gerr != nil {
					e.Fail(P, "registry", "missing:"+name, fmt.Sprintf("container has no function %s", name), "case", name)
					continue
				}
				got := f.IsActive()
				if epochGated[name] {
					if got != want {
						e.Fail(P, "activation", fmt.Sprintf("%s:active=%v-want=%v", name, got, want), fmt.Sprintf("activation epoch %d, confirmed epochs %v (timestamp policy %d): %s reports active=%v, the last confirmed epoch %d >= %d is %v", act, seq, policy, name, got, ep, act, want), "case", fmt.Sprintf("%d %v p%d", act, seq, policy))
					}
				} else if !got {
					e.Fail(P, "activation", name+":always-active", fmt.Sprintf("%s reports inactive after epochs %v", name, seq), "case", fmt.Sprintf("%d %v", act, seq))
				}
			}
			stateSets[wk][fmt.Sprintf("%d/%d", act, ep)] = true
			e.Case(fmt.Sprintf("activation:%d:last%d:active%v:ts%d", act, ep, want, policy))
		}
	})
	// containers built while the notifier is already in some epoch (it confirms that epoch to every
	// subscriber on registration): active exactly when that epoch >= activation, right away and
	// after every further notification
	{
		e := ws[0]
		for _, act := range activations {
			for _, init := range epochs {
				init := init
				env, err := world.NewEnv(world.EnvConfig{NumShards: 1, ActivationEpoch: act, NotifierEpoch: &init})
				if err != nil {
					panic(err)
				}
				c := env.Shards[0].Container
				last := init
				for step := 0; step < 3; step++ {
					want := last >= act
					for _, name := range protocolNames {
						f, gerr := c.Get(name)
						if gerr != nil {
							continue
						}
						if epochGated[name] && f.IsActive() != want {
							e.Fail(P, "activation", fmt.Sprintf("%s:built-in-epoch:active=%v-want=%v", name, f.IsActive(), want), fmt.Sprintf("activation epoch %d, container built while the notifier was in epoch %d, then %d further notification(s) (last epoch %d): %s reports active=%v", act, init, step, last, name, f.IsActive()), "case", fmt.Sprintf("built-in-epoch %d %d %d", act, init, step))
						}
					}
					e.Case(fmt.Sprintf("activation-at-construction:%d:%d:%v", act, init, want))
					last = epochs[(step*3+1)%len(epochs)]
					env.ConfirmEpoch(last)
				}
			}
		}
	}
	states := map[string]bool{}
	for _, m := range stateSets {
		for k := range m {
			states[k] = true
		}
	}
	ws[0].Sample(map[string]interface{}{"activation_epoch": 2, "confirmed": []uint32{3, 1, 2, 0}, "expected_active_after_each": []bool{true, false, true, false}})
	// registry: Keys()/Len() for every factory configuration
	reg := NewEnum()
	for shards := 1; shards <= 3; shards++ {
		for _, enable := range []bool{false, true} {
			for _, dns := range [][][]byte{nil, {uni.D0}} {
				for _, act := range activations {
					zero := uint32(0)
					env, err := world.NewEnv(world.EnvConfig{NumShards: shards, EnableUserNameChange: enable, DNS: dns, ActivationEpoch: act, InitialEpoch: &zero})
					if err != nil {
						reg.Fail(P, "registry", "factory-error", err.Error(), "case", "factory")
						continue
					}
					for _, se := range env.Shards {
						keys := se.Container.Keys()
						var got []string
						for k := range keys {
							got = append(got, k)
						}
						sort.Strings(got)
						want := append([]string{}, protocolNames...)
						sort.Strings(want)
						if fmt.Sprint(got) != fmt.Sprint(want) || se.Container.Len() != 23 {
							reg.Fail(P, "registry", "names", fmt.Sprintf("container of shard %d holds %d names %v, the protocol defines the 23 names %v", se.ID, se.Container.Len(), got, want), "case", "names")
						}
						reg.Case(fmt.Sprintf("registry:shards%d:enable%v:dns%d", shards, enable, len(dns)))
					}
					// a second container from the same factory, after the first one was customised
					if act == 0 {
						se := env.Shards[0]
						first := se.Container
						types := map[string]string{}
						for _, n := range protocolNames {
							if f, err := first.Get(n); err == nil {
								types[n] = fmt.Sprintf("%T", f)
							}
						}
						first.Remove(vmcommon.BuiltInFunctionESDTWipe)
						stub, _ := first.Get(vmcommon.BuiltInFunctionESDTPause)
						_ = first.Replace(vmcommon.BuiltInFunctionClaimDeveloperRewards, stub)
						// a refused schedule in between must leave the factory able to build
						se.Factory.GasScheduleChange(nil)
						se.Factory.GasScheduleChange(map[string]map[string]uint64{vmcommon.BuiltInCostString: {"ESDTTransfer": 1}})
						var second vmcommon.BuiltInFunctionContainer
						var err error
						if pv := guard(func() { second, err = se.Factory.CreateBuiltInFunctionContainer() }); pv != nil {
							reg.Fail(P, "registry", "second-container:panic", fmt.Sprintf("CreateBuiltInFunctionContainer after two refused gas schedules panicked: %v", pv), "case", "second")
							continue
						}
						if err != nil || second == nil {
							reg.Fail(P, "registry", "second-container:error", fmt.Sprintf("second CreateBuiltInFunctionContainer on the same factory: %v", err), "case", "second")
						} else {
							var bad []string
							for _, n := range protocolNames {
								f, err := second.Get(n)
								if err != nil {
									bad = append(bad, n+" missing")
								} else if got := fmt.Sprintf("%T", f); got != types[n] {
									bad = append(bad, fmt.Sprintf("%s bound to %s instead of %s", n, got, types[n]))
								}
							}
							if second.Len() != 23 || len(bad) > 0 {
								reg.Fail(P, "registry", "second-container:names-or-bindings", fmt.Sprintf("after Remove(ESDTWipe) and Replace(ClaimDeveloperRewards) on the first container, a second container built by the same factory holds %d names; %v", second.Len(), bad), "case", "second")
							}
							reg.Case("registry:second-container")
						}
					}
					// configuration-dependent behaviour of SetUserName
					if shards >= 1 {
						w := uni.NewBuilder(env).W
						_, l1 := env.Step(w, uni.Call(uni.D0, uni.B0, vmcommon.BuiltInFunctionSetUserName, []byte("one")))
						okFirst := l1[0].OK()
						if okFirst != (len(dns) > 0) {
							reg.Fail(P, "registry", "dns-configuration", fmt.Sprintf("SetUserName by d0 with %d configured DNS addresses: success=%v", len(dns), okFirst), "case", "dns")
						}
						if okFirst {
							nw, _ := env.Step(w, uni.Call(uni.D0, uni.B0, vmcommon.BuiltInFunctionSetUserName, []byte("one")))
							_, l2 := env.Step(nw, uni.Call(uni.D0, uni.B0, vmcommon.BuiltInFunctionSetUserName, []byte("two")))
							if l2[0].OK() != enable {
								reg.Fail(P, "registry", "username-change-configuration", fmt.Sprintf("second SetUserName with EnableUserNameChange=%v: success=%v", enable, l2[0].OK()), "case", "enable")
							}
						}
					}
				}
			}
		}
	}
	// each name is bound to the behaviour of that name
	{
		env, err := world.NewEnv(ledgerEnv(2))
		if err != nil {
			panic(err)
		}
		baseW := catalogueBase(env)
		seen := map[string]bool{}
		for _, b := range bindings() {
			w, act := b.build(env, baseW)
			act.Func = b.name
			post, legs := env.Step(w, act)
			l := legs[0]
			seen[b.name] = true
			if !l.OK() {
				reg.Fail(P, "binding", b.name+":scenario-fails", fmt.Sprintf("the function registered as %s rejects the discriminating call %s: %v %v", b.name, DescribeAction(act), l.Err, l.Panic), "case", b.name)
				continue
			}
			// bound to that name's own price of the construction schedule (scenarios without a
			// per-byte component)
			if field, simple := simplePriced[b.name]; simple {
				fwd := uint64(0)
				for _, m := range l.Outs {
					fwd += m.GasLimit
				}
				consumed := act.Gas - l.Out.GasRemaining - fwd
				if want := builtin(world.DefaultSchedule(), field); consumed != want {
					reg.Fail(P, "binding", b.name+":construction-price", fmt.Sprintf("the function registered as %s charges %d under the construction schedule, its own entry %s is %d", b.name, consumed, field, want), "case", b.name)
				}
			}
			if why := b.check(w, l.Post, l); why != "" {
				reg.Fail(P, "binding", b.name+":wrong-behaviour", fmt.Sprintf("the function registered as %s does not behave as %s on %s: %s", b.name, b.name, DescribeAction(act), why), "case", b.name)
			}
			_ = post
			reg.Case("binding:" + b.name)
		}
		for _, n := range protocolNames {
			if !seen[n] {
				reg.Fail(P, "harness", "no-binding-scenario:"+n, "no discriminating scenario for "+n, "case", n)
			}
		}
	}
	reg.Sample(map[string]interface{}{"binding": "ESDTWipe", "scenario": "freeze b0 for F, then ESDTSC->b0 ESDTWipe(F): the frozen holding must disappear (ESDTFreeze/ESDTUnFreeze registered in its place would keep it)"})
	total := NewEnum()
	for _, e := range append(ws, reg) {
		total.Merge(e)
	}
	o := &Outcome{Property: P, Tier: tier, Level: "model_checking", Start: start, Violations: total.Viols,
		Assumptions: []string{"nothing is asserted before the first notification (the flag's initial value is not part of the statement)", "the discriminating scenarios' expected effects come from the reference ledger"}}
	o.Coverage = map[string]interface{}{
		"states":                        len(states),
		"transitions":                   int64(nseq) * int64(len(activations)) * int64(L),
		"traces_validated_against_impl": int64(nseq) * int64(len(activations)),
		"sequences":                     nseq * len(activations),
		"sequence_length":               L,
		"factory_configurations":        3 * 2 * 2 * len(activations),
		"binding_scenarios":             len(bindings()),
		"distinct_outcome_classes":      len(total.Distinct),
		"exhaustive":                    true,
		"samples":                       total.Samples,
		"explanation":                   fmt.Sprintf("every sequence of %d confirmed epochs over {0,1,2,3,4,2^31,2^32-1} (7^%d sequences, every prefix checked) x 6 activation epochs delivered to a container built by the real factory, IsActive() of all 23 entries read after every notification; the model state is (activation epoch, last confirmed epoch)", L, L),
	}
	return Finish(o)
}
