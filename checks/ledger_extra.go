package checks

import (
	"bytes"
	"fmt"
	"math/big"
	"strings"

	vmcommon "github.com/ElrondNetwork/elrond-vm-common"

	"verif/engine/explore"
	"verif/engine/spec"
	"verif/engine/uni"
	"verif/engine/world"
)

// ---------------------------------------------------------------------------------------------
// C04 restore clause (differential, no hand-written expected value)

type restoreOracle struct {
	property string
	o        menuOpts
	maxDepth int
	menu     func(w *world.World) []world.Action
}

func (r *restoreOracle) Leg(c *explore.Ctx, leg *world.Leg) {
	if leg.OK() || leg.Err == nil {
		return
	}
	msg := leg.Err.Error()
	if strings.Contains(msg, "frozen") {
		c.Class("blocked:frozen")
	}
	if strings.Contains(msg, "paused") {
		c.Class("blocked:paused")
	}
}

func legsSummary(legs []*world.Leg) string {
	var sb strings.Builder
	for _, l := range legs {
		switch {
		case l.Panic != nil:
			sb.WriteString("panic;")
		case l.OK():
			sb.WriteString("ok:" + spec.FmtDelta(spec.Delta(spec.Balances(l.Pre), spec.Balances(l.Post)), uni.Name) + ";")
		default:
			sb.WriteString("err;")
		}
	}
	return sb.String()
}

func (r *restoreOracle) State(c *explore.Ctx, w *world.World) {
	if c.Depth() > r.maxDepth {
		return
	}
	env := c.Env
	type toggle struct {
		kind    string
		on, off world.Action
	}
	var toggles []toggle
	for _, a := range append([][]byte{uni.A0, uni.B0, uni.C1}, r.o.extra...) {
		if !spec.Frozen(w.Get(a), tF) {
			toggles = append(toggles, toggle{"freeze", uni.SysCall(a, vmcommon.BuiltInFunctionESDTFreeze, uni.F), uni.SysCall(a, vmcommon.BuiltInFunctionESDTUnFreeze, uni.F)})
		}
	}
	for sh := 0; sh < r.o.shards; sh++ {
		for _, tok := range [][]byte{uni.F, uni.S} {
			if !spec.Paused(w, uint32(sh), string(tok)) {
				toggles = append(toggles, toggle{"pause", uni.PauseCall(sh, vmcommon.BuiltInFunctionESDTPause, tok), uni.PauseCall(sh, vmcommon.BuiltInFunctionESDTUnPause, tok)})
				if r.o.sysFlavours && sh > 0 {
					// paused through the canonical address, released through the shard-flavoured one
					toggles = append(toggles, toggle{"pause", uni.PauseCall(sh, vmcommon.BuiltInFunctionESDTPause, tok), uni.PauseCallAt(sh, vmcommon.BuiltInFunctionESDTUnPause, tok)})
				}
			}
		}
	}
	base := map[int]string{}
	menu := r.menu(w)
	for _, t := range toggles {
		s1, l1 := env.Step(w, t.on)
		s2, l2 := env.Step(s1, t.off)
		if !l1[0].OK() || !l2[0].OK() {
			c.Report(r.property, "restore", t.kind+":toggle-failed", fmt.Sprintf("%s / its inverse failed: %v %v", DescribeAction(t.on), l1[0].Err, l2[0].Err))
			continue
		}
		if d := spec.Delta(spec.Balances(w), spec.Balances(s2)); len(d) != 0 {
			bsig := t.kind + ":balances-changed"
			if onlySystemAccountHolding(d, map[string]*big.Int{}) {
				bsig += ":system-account-own-holding"
			}
			c.Report(r.property, "restore", bsig, fmt.Sprintf("%s followed by its inverse changed balances by %s", DescribeAction(t.on), spec.FmtDelta(d, uni.Name)))
		}
		for i, act := range menu {
			if _, ok := base[i]; !ok {
				_, legs := env.Step(w, act)
				base[i] = legsSummary(legs)
			}
			_, legs := env.Step(s2, act)
			if got := legsSummary(legs); got != base[i] {
				sig := t.kind + ":behaviour-differs"
				if act.Kind == world.ActCall && spec.IsSystemAccount(act.Recipient) && world.TransferFuncs[act.Func] {
					// the differing action is a transfer addressed to the system account itself
					sig += ":transfer-to-system-account"
				} else if strings.Contains(got+base[i], "sys:") {
					// the two outcomes differ in the system account's own holding
					sig += ":system-account-own-holding"
				}
				c.Report(r.property, "restore", sig, fmt.Sprintf("after %s and its inverse, %s behaves differently: %s instead of %s", DescribeAction(t.on), DescribeAction(act), got, base[i]))
			}
		}
		c.Class("restore-checked:" + t.kind)
	}
}

func restoreDifferential(property string, o menuOpts) func(c *explore.Ctx, pre *world.World, act world.Action, post *world.World, legs []*world.Leg) {
	return nil
}

// ---------------------------------------------------------------------------------------------
// C02 amounts: single calls with huge values on huge prior balances

func maxBytes(n int) []byte { return bytes.Repeat([]byte{0xff}, n) }

func amountsProfile(property string, tier Tier) *explore.Profile {
	two64 := new(big.Int).Lsh(big.NewInt(1), 64)
	priors := []*big.Int{big.NewInt(0), big.NewInt(1), new(big.Int).Sub(two64, big.NewInt(1)), two64, new(big.Int).SetBytes(maxBytes(100))}
	a0, b0 := uni.A0, uni.B0
	call := func(c, r []byte, fn string, args ...[]byte) world.Action { return uni.Call(c, r, fn, args...) }
	return &explore.Profile{
		Name: "amounts", EnvCfg: ledgerEnv(2), Depth: 2, Deadline: tierDeadline(tier),
		Oracles: []explore.Oracle{&supplyOracle{property: property}},
		Seeds: func(env *world.Env) []explore.SeedState {
			var out []explore.SeedState
			for i, p := range priors {
				b := uni.NewBuilder(env)
				b.Must(uni.SetRole(a0, uni.F, vmcommon.ESDTRoleLocalMint, vmcommon.ESDTRoleLocalBurn))
				b.Must(uni.SetRole(a0, uni.S, uni.NFTRoles...))
				if p.Sign() > 0 {
					b.Must(call(a0, a0, vmcommon.BuiltInFunctionESDTLocalMint, uni.F, p.Bytes()))
					b.Must(call(a0, a0, vmcommon.BuiltInFunctionESDTNFTCreate, uni.S, p.Bytes(), []byte("n"), uni.Big(1), []byte("h"), []byte("a"), []byte("u")))
					b.Must(uni.ESDTTransfer(a0, b0, uni.F, 1))
					b.Must(call(a0, a0, vmcommon.BuiltInFunctionESDTLocalMint, uni.F, uni.Big(1)))
				}
				out = append(out, explore.SeedState{Name: fmt.Sprintf("prior%d", i), W: b.W, Legs: b.Legs, Failed: b.Failed})
			}
			return out
		},
		Menu: func(w *world.World) []world.Action {
			hF := spec.Held(w.Get(a0), tF)
			hS := spec.Held(w.Get(a0), tS1)
			amts := func(h *big.Int) [][]byte {
				vals := []*big.Int{big.NewInt(0), big.NewInt(1), new(big.Int).Sub(h, big.NewInt(1)), h, new(big.Int).Add(h, big.NewInt(1)),
					new(big.Int).Sub(two64, big.NewInt(1)), two64, new(big.Int).Add(two64, big.NewInt(1)), new(big.Int).SetBytes(maxBytes(100))}
				var out [][]byte
				seen := map[string]bool{}
				for _, v := range vals {
					if v.Sign() < 0 || seen[v.String()] {
						continue
					}
					seen[v.String()] = true
					out = append(out, v.Bytes())
				}
				out = append(out, maxBytes(101), append([]byte{0, 0}, h.Bytes()...), []byte{0, 1}, []byte{0})
				return out
			}
			var acts []world.Action
			for _, q := range amts(hF) {
				acts = append(acts,
					call(a0, a0, vmcommon.BuiltInFunctionESDTLocalMint, uni.F, q),
					call(a0, a0, vmcommon.BuiltInFunctionESDTLocalBurn, uni.F, q),
					call(a0, uni.ESDT, vmcommon.BuiltInFunctionESDTBurn, uni.F, q),
					call(a0, b0, vmcommon.BuiltInFunctionESDTTransfer, uni.F, q),
					call(a0, a0, vmcommon.BuiltInFunctionMultiESDTNFTTransfer, b0, uni.Big(1), uni.F, []byte{}, q),
					call(a0, a0, vmcommon.BuiltInFunctionESDTNFTCreate, uni.S, q, []byte("n"), uni.Big(1), []byte("h"), []byte("a"), []byte("u")),
				)
			}
			for _, q := range amts(hS) {
				acts = append(acts,
					call(a0, a0, vmcommon.BuiltInFunctionESDTNFTAddQuantity, uni.S, uni.Big(1), q),
					call(a0, a0, vmcommon.BuiltInFunctionESDTNFTBurn, uni.S, uni.Big(1), q),
					call(a0, a0, vmcommon.BuiltInFunctionESDTNFTTransfer, uni.S, uni.Big(1), q, b0),
					call(a0, a0, vmcommon.BuiltInFunctionMultiESDTNFTTransfer, b0, uni.Big(1), uni.S, uni.Big(1), q),
				)
			}
			// the same calls with the return-after-error flag set (an input flag that exempts from
			// freeze/pause, never from the balance check)
			n := len(acts)
			for i := 0; i < n; i++ {
				f := acts[i]
				f.ReturnAfterError = true
				acts = append(acts, f)
			}
			if spec.Frozen(w.Get(a0), tF) {
				acts = append(acts, uni.SysCall(a0, vmcommon.BuiltInFunctionESDTWipe, uni.F))
			} else {
				acts = append(acts, uni.SysCall(a0, vmcommon.BuiltInFunctionESDTFreeze, uni.F))
			}
			return acts
		},
	}
}

// ---------------------------------------------------------------------------------------------
// scripted prefix + exhaustive suffix: reach multi-byte nonces (256 = 0x0100, 257 = 0x0101)

// highNonceProfile drives one scripted history - create, burn the previous one - until the
// collection S has issued nonce 257 (every step checked by the attached oracles), then explores
// every hop of the NFTs with nonces 1, 256 and 257 for `suffix` more levels. Frontier width is 1
// during the script, so the cost is ~520 steps plus the suffix.
func highNonceProfile(name string, tier Tier, oracles []explore.Oracle, suffix int) *explore.Profile {
	return highNonceProfileAt(name, tier, oracles, suffix, 257)
}

// highNonceProfileAt stops the script at the given counter (257, or 256 = 0x0100, whose low byte
// is zero) and explores the suffix from there.
func highNonceProfileAt(name string, tier Tier, oracles []explore.Oracle, suffix int, target int64) *explore.Profile {
	o := menuOpts{thorough: tier.Thorough(), shards: 2}
	return &explore.Profile{
		Name: name, EnvCfg: ledgerEnv(2), Seeds: seedsOf("sft"),
		// 1 (burn own nonce 1) + 1 + 2*253 + 1 scripted steps from the seed (nonces 1,2) to nonce 257
		Depth:    509 - 2*int(257-target) + suffix,
		Deadline: tierDeadline(tier), WithGhost: true, Workers: 4,
		Oracles: append(append([]explore.Oracle{}, oracles...), scriptReached{target: uint64(target)}),
		Menu: func(w *world.World) []world.Action {
			hi := int64(w.Ghost.Highest[tS])
			if hi < target {
				// a0 gives up its own (S,1) first: other accounts keep theirs, so that a key
				// collision between nonce 1 and a multi-byte nonce has something to collide with
				// on both the creating and the receiving side
				if h := held(w, uni.A0, tS1); h > 0 {
					return []world.Action{uni.Call(uni.A0, uni.A0, vmcommon.BuiltInFunctionESDTNFTBurn, uni.S, uni.Big(1), uni.Big(h))}
				}
				// burn the latest one first unless it is one of the kept nonces
				if hi > 2 && hi != 256 && held(w, uni.A0, tS+spec.NonceSuffix(uint64(hi))) > 0 {
					return []world.Action{uni.Call(uni.A0, uni.A0, vmcommon.BuiltInFunctionESDTNFTBurn, uni.S, uni.Big(hi), uni.Big(2))}
				}
				return []world.Action{uni.Create(uni.A0, uni.S, 2)}
			}
			acts := hopMenu(w, o, uni.S, []int64{1, 256, 257}, true)
			acts = append(acts, handoverMenu(w, o, [][]byte{uni.S})...)
			acts = append(acts, uni.Create(uni.C1, uni.S, 1), uni.Create(uni.B0, uni.S, 1), uni.Create(uni.A0, uni.S, 1))
			for _, n := range []int64{256, 257} {
				acts = append(acts, uni.Call(uni.A0, uni.A0, vmcommon.BuiltInFunctionESDTNFTAddQuantity, uni.S, uni.Big(n), uni.Big(1)))
				acts = append(acts, uni.Call(uni.A0, uni.A0, vmcommon.BuiltInFunctionESDTNFTBurn, uni.S, uni.Big(n), uni.Big(1)))
				acts = append(acts, uni.Multi(uni.A0, uni.C1, []uni.Ent{{Tok: uni.S, Nonce: n, Q: 1}, {Tok: uni.S, Nonce: 1, Q: 1}}))
			}
			// NFT-versus-NFT aliasing: (token S||01, nonce 1) has the key bytes of (S, 257) - calls
			// that name the alias must not move, mint, burn or rewrite the holding of (S, 257)
			for _, to := range [][]byte{uni.B0, uni.C1} {
				acts = append(acts, uni.NFTTransfer(uni.A0, to, uni.S1, 1, 1), uni.Multi(uni.A0, to, []uni.Ent{{Tok: uni.S1, Nonce: 1, Q: 1}}))
			}
			// ... and the other direction: (S, 258) has the key bytes of (token S||01, nonce 2), which
			// the creator holds in the aliased variant of this profile
			acts = append(acts, uni.NFTTransfer(uni.A0, uni.B0, uni.S, 258, 1), uni.Multi(uni.A0, uni.C1, []uni.Ent{{Tok: uni.S, Nonce: 258, Q: 1}}),
				uni.Call(uni.A0, uni.A0, vmcommon.BuiltInFunctionESDTNFTAddQuantity, uni.S, uni.Big(258), uni.Big(1)),
				uni.Call(uni.A0, uni.A0, vmcommon.BuiltInFunctionESDTNFTBurn, uni.S, uni.Big(258), uni.Big(1)),
				uni.Call(uni.A0, uni.A0, vmcommon.BuiltInFunctionESDTNFTUpdateAttributes, uni.S, uni.Big(258), []byte("zz")))
			acts = append(acts, uni.Call(uni.A0, uni.A0, vmcommon.BuiltInFunctionESDTNFTAddQuantity, uni.S1, uni.Big(1), uni.Big(1)),
				uni.Call(uni.A0, uni.A0, vmcommon.BuiltInFunctionESDTNFTBurn, uni.S1, uni.Big(1), uni.Big(1)),
				uni.Call(uni.A0, uni.A0, vmcommon.BuiltInFunctionESDTNFTAddURI, uni.S1, uni.Big(1), []byte("x")),
				uni.Call(uni.A0, uni.A0, vmcommon.BuiltInFunctionESDTNFTUpdateAttributes, uni.S1, uni.Big(1), []byte("zz")))
			return acts
		},
	}
}

// highNonceAliasedProfile: as the high-nonce profile, but the creator also holds nonce 2 of the
// collection named S||01 (undisciplined system contract), whose key S||01||02 has the bytes of
// (S, nonce 258 = 0x0102) - the nonce the creator of S issues next after the script.
func highNonceAliasedProfile(name string, tier Tier, oracles []explore.Oracle, suffix int) *explore.Profile {
	p := highNonceProfileAt(name, tier, oracles, suffix, 257)
	p.Seeds = func(env *world.Env) []explore.SeedState {
		b := uni.SeedBuilder(env, "sft")
		b.Must(uni.SetRole(uni.A0, uni.S1, uni.NFTRoles...))
		b.Must(uni.Create(uni.A0, uni.S1, 1))
		b.Must(uni.Create(uni.A0, uni.S1, 1))
		// nonce 1 of S||01 has the key bytes of (S, 257): given up, so that the script is not stopped
		b.Must(uni.Call(uni.A0, uni.A0, vmcommon.BuiltInFunctionESDTNFTBurn, uni.S1, uni.Big(1), uni.Big(1)))
		return []explore.SeedState{{Name: "sft+aliased-collection", W: b.W, Legs: b.Legs, Failed: b.Failed}}
	}
	return p
}

// scriptReached counts the states in which the scripted prefix has reached its target, so that a
// stalled script fails the run's non-vacuity self-check instead of passing silently.
type scriptReached struct{ target uint64 }

func (scriptReached) Leg(c *explore.Ctx, leg *world.Leg) {}
func (s scriptReached) State(c *explore.Ctx, w *world.World) {
	if w.Ghost.Highest[tS] >= s.target {
		c.Class("high-nonce-reached")
		if s.target != 257 {
			c.Class(fmt.Sprintf("high-nonce-%d-reached", s.target))
		}
	}
}

// ---------------------------------------------------------------------------------------------
// wide transfers: word-boundary quantities and long entry lists, same-shard and cross-shard

// wideTransfersProfile moves quantities around 2^63 / 2^64 / k*2^64 (in every encoding width the
// functions accept) and lists of 255..300 entries through all three transfer functions, followed
// by the deliveries (and refunds) they cause.
func wideTransfersProfile(tier Tier, oracles []explore.Oracle) *explore.Profile {
	two63 := new(big.Int).Lsh(big.NewInt(1), 63)
	two64 := new(big.Int).Lsh(big.NewInt(1), 64)
	tenE18, _ := new(big.Int).SetString("10000000000000000000", 10)
	prior := new(big.Int).Add(new(big.Int).Mul(two64, big.NewInt(6)), big.NewInt(1000))
	a0, b0, c1, s1 := uni.A0, uni.B0, uni.C1, uni.S1c
	qs := [][]byte{two63.Bytes(), tenE18.Bytes(), new(big.Int).Sub(two64, big.NewInt(1)).Bytes(), two64.Bytes(),
		new(big.Int).Add(two64, big.NewInt(1)).Bytes(), new(big.Int).Mul(two64, big.NewInt(2)).Bytes(),
		append([]byte{0}, tenE18.Bytes()...), new(big.Int).Sub(two63, big.NewInt(1)).Bytes(), new(big.Int).Lsh(big.NewInt(1), 32).Bytes(),
		// quantities whose bytes are a well-formed serialized token / metadata record
		{0x12, 0x02, 0x00, 0x07}, {0x08, 0x01, 0x12, 0x02, 0x00, 0x07}, {0x22, 0x02, 0x08, 0x01}}
	counts := []int{255, 256, 257, 300}
	if tier.Thorough() {
		counts = append(counts, 511, 512, 513, 4096)
	}
	depth := 2
	call := uni.Call
	return &explore.Profile{
		Name: "wide-transfers", EnvCfg: ledgerEnv(2), Depth: depth, Deadline: tierDeadline(tier), Oracles: oracles,
		Seeds: func(env *world.Env) []explore.SeedState {
			b := uni.NewBuilder(env)
			b.Must(uni.SetRole(a0, uni.F, vmcommon.ESDTRoleLocalMint, vmcommon.ESDTRoleLocalBurn))
			b.Must(uni.SetRole(a0, uni.S, uni.NFTRoles...))
			b.Must(call(a0, a0, vmcommon.BuiltInFunctionESDTLocalMint, uni.F, prior.Bytes()))
			b.Must(call(a0, a0, vmcommon.BuiltInFunctionESDTNFTCreate, uni.S, prior.Bytes(), []byte("n"), uni.Big(1), []byte("h"), []byte("a"), []byte("u")))
			b.Must(call(a0, a0, vmcommon.BuiltInFunctionESDTNFTCreate, uni.S, uni.Big(400), []byte("n"), uni.Big(1), []byte("g"), []byte("a"), []byte("u")))
			// the receivers already hold something, so that sums cross the word boundary too
			b.Must(call(a0, c1, vmcommon.BuiltInFunctionESDTTransfer, uni.F, new(big.Int).Sub(two64, big.NewInt(3)).Bytes())).DeliverAll()
			b.Must(call(a0, b0, vmcommon.BuiltInFunctionESDTTransfer, uni.F, big.NewInt(1).Bytes()))
			return []explore.SeedState{{Name: "wide", W: b.W, Legs: b.Legs, Failed: b.Failed}}
		},
		Menu: func(w *world.World) []world.Action {
			var acts []world.Action
			if len(w.Inflight) == 0 && spec.Held(w.Get(a0), tF).Cmp(new(big.Int).Mul(two64, big.NewInt(4))) > 0 {
				for _, to := range [][]byte{c1, b0, s1} {
					for _, q := range qs {
						acts = append(acts,
							call(a0, to, vmcommon.BuiltInFunctionESDTTransfer, uni.F, q),
							call(a0, a0, vmcommon.BuiltInFunctionESDTNFTTransfer, uni.S, uni.Big(1), q, to),
							call(a0, a0, vmcommon.BuiltInFunctionMultiESDTNFTTransfer, to, uni.Big(1), uni.F, []byte{}, q),
							call(a0, a0, vmcommon.BuiltInFunctionMultiESDTNFTTransfer, to, uni.Big(1), uni.S, uni.Big(1), q),
							call(a0, a0, vmcommon.BuiltInFunctionMultiESDTNFTTransfer, to, uni.Big(2), uni.F, []byte{}, q, uni.S, uni.Big(1), q),
						)
					}
					for _, n := range counts {
						for _, shape := range []string{"fungible", "sft", "alternating"} {
							args := [][]byte{to, big.NewInt(int64(n)).Bytes()}
							for i := 0; i < n; i++ {
								switch {
								case shape == "fungible" || (shape == "alternating" && i%2 == 0):
									args = append(args, uni.F, []byte{}, uni.Big(1))
								default:
									args = append(args, uni.S, uni.Big(2), uni.Big(1))
								}
							}
							a := call(a0, a0, vmcommon.BuiltInFunctionMultiESDTNFTTransfer, args...)
							a.Gas = 1 << 40
							acts = append(acts, a)
							if vmcommon.IsSmartContractAddress(to) {
								f := call(a0, a0, vmcommon.BuiltInFunctionMultiESDTNFTTransfer, append(args, []byte("f"), []byte("x"))...)
								f.Gas = 1 << 40
								acts = append(acts, f)
							}
						}
					}
				}
			}
			// the receivers send back what they got (sums and differences around the boundary)
			for _, from := range [][]byte{c1, b0} {
				h := spec.Held(w.Get(from), tF)
				if h.Cmp(two63) >= 0 && len(w.Inflight) == 0 {
					acts = append(acts, call(from, a0, vmcommon.BuiltInFunctionESDTTransfer, uni.F, h.Bytes()),
						call(from, from, vmcommon.BuiltInFunctionMultiESDTNFTTransfer, a0, uni.Big(1), uni.F, []byte{}, new(big.Int).Sub(h, big.NewInt(1)).Bytes()))
				}
			}
			return append(acts, deliveries(w)...)
		},
	}
}
