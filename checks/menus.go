package checks

import (
	"math/big"

	vmcommon "github.com/ElrondNetwork/elrond-vm-common"

	"verif/engine/spec"
	"verif/engine/uni"
	"verif/engine/world"
)

// TokKind is the ghost knowledge of which names were issued as what (A7 c).
func TokKind(tok string) string {
	switch tok {
	case tF, tF1:
		return "fungible"
	case tS, tR:
		return "nft"
	}
	return "unissued"
}

type menuOpts struct {
	thorough bool
	shards   int
	// extra are additional ordinary holders (e.g. z1, whose address ends in 0xff)
	extra [][]byte
	// sysFlavours adds pause / unpause messages addressed to the shard-flavoured system account
	// address (0xff..ff || shard id), the form the system contract's broadcast uses
	sysFlavours bool
	// undisciplined adds role messages the system contract's own discipline (A7) excludes
	undisciplined bool
	// repeatControls adds the controls that repeat the state in force (un-freeze of an account that
	// is not frozen, freeze of a frozen one, un-pause of a token that is not paused, pause of a
	// paused one): they are accepted and must leave the flag as the control says
	repeatControls bool
	// nftFreeze adds ESDTFreeze / ESDTUnFreeze of a single NFT holding (argument token||nonce, the
	// entry whose own flag the NFT functions read), for holdings that exist
	nftFreeze bool
}

func held(w *world.World, a []byte, suffix string) int64 {
	v := spec.Held(w.Get(a), suffix)
	if !v.IsInt64() {
		return 1 << 40
	}
	return v.Int64()
}

func qtys(h int64) []int64 {
	out := []int64{1}
	if h > 1 {
		out = append(out, h)
	}
	out = append(out, h+1)
	if h+1 == 1 {
		out = out[:1]
	}
	return out
}

func senders(o menuOpts) [][]byte {
	s := [][]byte{uni.A0, uni.B0, uni.S0}
	if o.shards > 1 {
		s = append(s, uni.C1)
	}
	if o.shards > 2 {
		s = append(s, uni.E2)
	}
	return append(s, o.extra...)
}

func dests(o menuOpts) [][]byte {
	d := [][]byte{uni.A0, uni.B0, uni.S0, uni.M}
	if o.shards > 1 {
		d = append(d, uni.C1, uni.S1c)
	}
	if o.shards > 2 {
		d = append(d, uni.E2)
	}
	return d
}

var callShapes = [][][]byte{nil, {[]byte("f")}}
var callShapesThorough = [][][]byte{nil, {[]byte("f")}, {[]byte("f"), {7}}}

// transferMenu enumerates the transfer calls enabled in w (DESIGN.md §5 C01 "Enumerated").
func transferMenu(w *world.World, o menuOpts) []world.Action {
	var acts []world.Action
	shapes := callShapes
	if o.thorough {
		shapes = callShapesThorough
	}
	for _, from := range senders(o) {
		acc := w.Get(from)
		if acc == nil {
			continue
		}
		// single fungible transfers: tokens the sender holds under the bare key, plus one unknown name
		for _, tok := range [][]byte{uni.F, uni.F1, uni.S1, uni.U} {
			h := held(w, from, string(tok))
			if h == 0 && string(tok) != tU && string(tok) != tS1 {
				continue
			}
			for _, to := range dests(o) {
				for _, q := range qtys(h) {
					for _, cs := range shapes {
						if cs != nil && !vmcommon.IsSmartContractAddress(to) && !o.thorough {
							continue
						}
						if h == 0 && (cs != nil || q != 1) {
							continue
						}
						acts = append(acts, uni.ESDTTransfer(from, to, tok, q, cs...))
					}
				}
			}
		}
		// NFT transfers
		for _, tn := range []struct {
			tok   []byte
			nonce int64
		}{{uni.S, 1}, {uni.S, 2}, {uni.F, 1}} {
			h := held(w, from, string(tn.tok)+spec.NonceSuffix(uint64(tn.nonce)))
			if h == 0 {
				continue
			}
			for _, to := range dests(o) {
				for _, q := range qtys(h) {
					for _, cs := range shapes {
						if cs != nil && !vmcommon.IsSmartContractAddress(to) && !o.thorough {
							continue
						}
						acts = append(acts, uni.NFTTransfer(from, to, tn.tok, tn.nonce, q, cs...))
					}
				}
			}
		}
		// multi transfers
		type tnq = uni.Ent
		var singles []tnq
		for _, tn := range []struct {
			tok   []byte
			nonce int64
		}{{uni.F, 0}, {uni.F1, 0}, {uni.S, 1}, {uni.S, 2}, {uni.F, 1}, {uni.S1, 0}} {
			h := held(w, from, string(tn.tok)+spec.NonceSuffix(uint64(tn.nonce)))
			if h == 0 {
				continue
			}
			for _, q := range qtys(h) {
				singles = append(singles, tnq{Tok: tn.tok, Nonce: tn.nonce, Q: q})
			}
		}
		var lists [][]tnq
		for _, s := range singles {
			lists = append(lists, []tnq{s})
		}
		// pairs: the same entry twice, and each entry with quantity 1 paired with each other such entry
		var ones []tnq
		for _, s := range singles {
			if s.Q == 1 {
				ones = append(ones, s)
			}
		}
		for i, x := range ones {
			for j, y := range ones {
				if j < i {
					continue
				}
				if !o.thorough && j > i+1 {
					continue
				}
				lists = append(lists, []tnq{x, y})
			}
		}
		// the same entry twice with different quantities (needs a holding of at least 3)
		for _, x := range ones {
			if h := held(w, from, string(x.Tok)+spec.NonceSuffix(uint64(x.Nonce))); h >= 3 {
				two := tnq{Tok: x.Tok, Nonce: x.Nonce, Q: 2}
				lists = append(lists, []tnq{x, two}, []tnq{two, x})
			}
		}
		// the same entry twice, each quantity within the holding, the sum above it
		for _, x := range ones {
			if h := held(w, from, string(x.Tok)+spec.NonceSuffix(uint64(x.Nonce))); h >= 2 {
				lists = append(lists, []tnq{{Tok: x.Tok, Nonce: x.Nonce, Q: h}, {Tok: x.Tok, Nonce: x.Nonce, Q: 1}}, []tnq{{Tok: x.Tok, Nonce: x.Nonce, Q: h - 1}, {Tok: x.Tok, Nonce: x.Nonce, Q: 2}})
			}
		}
		// pairs with different quantities (an entry of quantity 1 next to an entry of quantity > 1)
		for _, x := range ones {
			for _, y := range singles {
				if y.Q <= 1 || (string(y.Tok) == string(x.Tok) && y.Nonce == x.Nonce) {
					continue
				}
				if h := held(w, from, string(y.Tok)+spec.NonceSuffix(uint64(y.Nonce))); y.Q > h {
					continue
				}
				lists = append(lists, []tnq{x, y})
				if o.thorough {
					lists = append(lists, []tnq{y, x})
				}
			}
		}
		if o.thorough {
			for _, x := range ones {
				lists = append(lists, []tnq{x, x, x})
			}
		} else if len(ones) > 0 {
			lists = append(lists, []tnq{ones[0], ones[0], ones[0]})
		}
		if len(ones) >= 3 {
			lists = append(lists, []tnq{ones[0], ones[1], ones[2]}, []tnq{ones[2], ones[0], ones[1]})
		}
		for _, to := range dests(o) {
			for _, l := range lists {
				for _, cs := range shapes {
					if cs != nil && (!vmcommon.IsSmartContractAddress(to) || len(l) > 1) && !o.thorough {
						continue
					}
					acts = append(acts, uni.Multi(from, to, l, cs...))
				}
			}
		}
	}
	return acts
}

func deliveries(w *world.World) []world.Action {
	var acts []world.Action
	for i := range w.Inflight {
		if i > 0 && string(w.Inflight[i].Data) == string(w.Inflight[i-1].Data) &&
			string(w.Inflight[i].To) == string(w.Inflight[i-1].To) && string(w.Inflight[i].From) == string(w.Inflight[i-1].From) &&
			w.Inflight[i].Refund == w.Inflight[i-1].Refund && w.Inflight[i].CallType == w.Inflight[i-1].CallType &&
			w.Inflight[i].GasLimit == w.Inflight[i-1].GasLimit {
			continue // identical message: delivering either copy yields the same state
		}
		acts = append(acts, uni.Deliver(i))
	}
	return acts
}

// freezeMenu enumerates the system contract's freeze / pause controls.
func freezeMenu(w *world.World, o menuOpts, withWipe bool) []world.Action {
	var acts []world.Action
	accts := [][]byte{uni.B0, uni.A0}
	if o.shards > 1 {
		accts = append(accts, uni.C1)
	}
	accts = append(accts, o.extra...)
	for _, a := range accts {
		acc := w.Get(a)
		if spec.Frozen(acc, tF) {
			acts = append(acts, uni.SysCall(a, vmcommon.BuiltInFunctionESDTUnFreeze, uni.F))
			if withWipe {
				acts = append(acts, uni.SysCall(a, vmcommon.BuiltInFunctionESDTWipe, uni.F))
			}
		} else {
			acts = append(acts, uni.SysCall(a, vmcommon.BuiltInFunctionESDTFreeze, uni.F))
			if withWipe {
				acts = append(acts, uni.SysCall(a, vmcommon.BuiltInFunctionESDTWipe, uni.F))
			}
		}
	}
	if o.nftFreeze {
		acts = append(acts, nftFreezeMenu(w, accts)...)
	}
	if o.repeatControls {
		// one account and one shard are enough (thorough: both): the code path is the same
		reps := [][]byte{uni.B0}
		if o.thorough {
			reps = append(reps, uni.C1)
		}
		for _, a := range reps {
			if o.shards < 2 && string(a) == string(uni.C1) {
				continue
			}
			if spec.Frozen(w.Get(a), tF) {
				acts = append(acts, uni.SysCall(a, vmcommon.BuiltInFunctionESDTFreeze, uni.F))
			} else {
				acts = append(acts, uni.SysCall(a, vmcommon.BuiltInFunctionESDTUnFreeze, uni.F))
			}
		}
		for sh := 0; sh < o.shards; sh++ {
			if sh > 0 && !o.thorough {
				break
			}
			fn := vmcommon.BuiltInFunctionESDTUnPause
			if spec.Paused(w, uint32(sh), tF) {
				fn = vmcommon.BuiltInFunctionESDTPause
			}
			acts = append(acts, uni.PauseCall(sh, fn, uni.F))
		}
	}
	for sh := 0; sh < o.shards; sh++ {
		for _, tok := range [][]byte{uni.F, uni.S} {
			fn := vmcommon.BuiltInFunctionESDTPause
			if spec.Paused(w, uint32(sh), string(tok)) {
				fn = vmcommon.BuiltInFunctionESDTUnPause
			}
			acts = append(acts, uni.PauseCall(sh, fn, tok))
			if o.sysFlavours && o.shards > 1 {
				acts = append(acts, uni.PauseCallAt(sh, fn, tok))
			}
		}
	}
	return acts
}

// nftFreezeMenu: the system contract freezes / releases one held NFT of S (nonces 1 and 2).
func nftFreezeMenu(w *world.World, accts [][]byte) []world.Action {
	var acts []world.Action
	for _, a := range accts {
		for n := uint64(1); n <= 2; n++ {
			key := string(uni.S) + spec.NonceSuffix(n)
			if held(w, a, key) <= 0 {
				continue
			}
			fn := vmcommon.BuiltInFunctionESDTFreeze
			if spec.Frozen(w.Get(a), key) {
				fn = vmcommon.BuiltInFunctionESDTUnFreeze
			}
			acts = append(acts, uni.SysCall(a, fn, []byte(key)))
		}
	}
	return acts
}

var _ = big.NewInt
