package checks

import (
	"bytes"
	"fmt"

	vmcommon "github.com/ElrondNetwork/elrond-vm-common"

	"verif/engine/uni"
	"verif/engine/world"
)

// CatEntry is one successful transition class: a pre-state reached by real calls and the call.
type CatEntry struct {
	Name string
	Func string
	W    *world.World
	Act  world.Action
	// Light marks classes that C11 uses as base cases with a single deviation only (their argument
	// lists are long, the pairs of deviations around the shorter classes cover the same code)
	Light bool
}

// catalogueBase: mixed, a0 with every role on S and F, the contract s0 holding F and (S,1),
// a stored key/value pair, payable contracts.
func catalogueBase(env *world.Env) *world.World {
	b := &uni.Builder{Env: env, W: uni.Seed(env, "mixed")}
	b.Must(uni.ESDTTransfer(uni.A0, uni.S0, uni.F, 1, []byte("f")))
	b.Must(uni.NFTTransfer(uni.A0, uni.S0, uni.S, 1, 1, []byte("f")))
	b.Must(uni.Call(uni.A0, uni.A0, vmcommon.BuiltInFunctionSaveKeyValue, []byte("k1"), []byte("vv"), []byte("k2"), []byte("vvvv"), []byte("k3"), []byte("v")))
	w := b.W.Clone()
	w.Payable[string(uni.S0)] = world.PayYes
	w.Payable[string(uni.S1c)] = world.PayYes
	return w
}

// Catalogue lists the successful transition classes of all 23 functions (DESIGN.md §5 C06/C17).
func Catalogue(env *world.Env) []CatEntry {
	base := catalogueBase(env)
	var out []CatEntry
	heavyEnd := 0
	add := func(name string, w *world.World, act world.Action) {
		fn := act.Func
		if act.Kind != world.ActCall {
			if act.Msg < len(w.Inflight) {
				f, _, _ := splitData(w.Inflight[act.Msg].Data)
				fn = f
			}
		}
		out = append(out, CatEntry{Name: name, Func: fn, W: w, Act: act})
	}
	after := func(w *world.World, acts ...world.Action) *world.World {
		b := &uni.Builder{Env: env, W: w}
		for _, a := range acts {
			b.Must(a)
		}
		return b.W
	}
	// the state after act with exactly its emitted message in flight; the class delivers it
	delivery := func(name string, w *world.World, act world.Action) {
		nw := after(w, act)
		if len(nw.Inflight) != 1 {
			panic(fmt.Sprintf("catalogue %s: expected one message in flight, got %d", name, len(nw.Inflight)))
		}
		add(name, nw, uni.Deliver(0))
	}
	withType := func(a world.Action, ct vmcommon.CallType) world.Action { a.CallType = ct; return a }
	f := []byte("f")
	A0, B0, C1, S0, S1 := uni.A0, uni.B0, uni.C1, uni.S0, uni.S1c

	add("ESDTTransfer/user-same-shard", base, uni.ESDTTransfer(A0, B0, uni.F, 1))
	add("ESDTTransfer/to-contract-with-call", base, uni.ESDTTransfer(A0, S0, uni.F, 1, f, []byte{7}))
	add("ESDTTransfer/user-cross-shard", base, uni.ESDTTransfer(A0, C1, uni.F, 1))
	add("ESDTTransfer/contract-cross-shard", base, uni.ESDTTransfer(S0, C1, uni.F, 1))
	add("ESDTTransfer/contract-cross-shard-with-call", base, uni.ESDTTransfer(S0, S1, uni.F, 1, f))
	delivery("ESDTTransfer/delivery-user", base, uni.ESDTTransfer(A0, C1, uni.F, 1))
	delivery("ESDTTransfer/delivery-contract-with-call", base, uni.ESDTTransfer(S0, S1, uni.F, 1, f, []byte{7}))
	delivery("ESDTTransfer/delivery-callback", base, withType(uni.ESDTTransfer(S0, C1, uni.F, 1), vmcommon.AsynchronousCallBack))
	add("ESDTBurn/user", base, uni.Call(A0, uni.ESDT, vmcommon.BuiltInFunctionESDTBurn, uni.F, uni.Big(1)))
	add("ESDTBurn/contract", base, uni.Call(S0, uni.ESDT, vmcommon.BuiltInFunctionESDTBurn, uni.F, uni.Big(1)))
	add("ESDTLocalMint", base, uni.Call(A0, A0, vmcommon.BuiltInFunctionESDTLocalMint, uni.F, uni.Big(2)))
	add("ESDTLocalBurn", base, uni.Call(A0, A0, vmcommon.BuiltInFunctionESDTLocalBurn, uni.F, uni.Big(1)))
	add("ESDTNFTCreate/one", base, uni.Create(A0, uni.S, 1))
	add("ESDTNFTCreate/quantity-3-uris", base, uni.Call(A0, A0, vmcommon.BuiltInFunctionESDTNFTCreate, uni.S, uni.Big(2), []byte("name"), uni.Big(10000), []byte("hash"), make([]byte, 17), []byte("u1"), []byte{}, []byte("u3")))
	add("ESDTNFTAddQuantity", base, uni.Call(A0, A0, vmcommon.BuiltInFunctionESDTNFTAddQuantity, uni.S, uni.Big(1), uni.Big(2)))
	add("ESDTNFTBurn", base, uni.Call(A0, A0, vmcommon.BuiltInFunctionESDTNFTBurn, uni.S, uni.Big(1), uni.Big(1)))
	add("ESDTNFTBurn/all", base, uni.Call(A0, A0, vmcommon.BuiltInFunctionESDTNFTBurn, uni.S, uni.Big(2), uni.Big(1)))
	add("ESDTNFTAddURI/one", base, uni.Call(A0, A0, vmcommon.BuiltInFunctionESDTNFTAddURI, uni.S, uni.Big(1), []byte("uri")))
	add("ESDTNFTAddURI/two-one-empty", base, uni.Call(A0, A0, vmcommon.BuiltInFunctionESDTNFTAddURI, uni.S, uni.Big(1), []byte{}, make([]byte, 17)))
	add("ESDTNFTUpdateAttributes/empty", base, uni.Call(A0, A0, vmcommon.BuiltInFunctionESDTNFTUpdateAttributes, uni.S, uni.Big(1), []byte{}))
	add("ESDTNFTUpdateAttributes/17-bytes", base, uni.Call(A0, A0, vmcommon.BuiltInFunctionESDTNFTUpdateAttributes, uni.S, uni.Big(1), make([]byte, 17)))
	add("ESDTNFTTransfer/same-shard", base, uni.NFTTransfer(A0, B0, uni.S, 1, 1))
	add("ESDTNFTTransfer/same-shard-contract-with-call", base, uni.NFTTransfer(A0, S0, uni.S, 1, 1, f, []byte{7}))
	add("ESDTNFTTransfer/cross-shard", base, uni.NFTTransfer(A0, C1, uni.S, 1, 1))
	add("ESDTNFTTransfer/cross-shard-contract-with-call", base, uni.NFTTransfer(A0, S1, uni.S, 1, 1, f))
	add("ESDTNFTTransfer/contract-sender-cross-shard", base, uni.NFTTransfer(S0, C1, uni.S, 1, 1))
	delivery("ESDTNFTTransfer/delivery-user", base, uni.NFTTransfer(A0, C1, uni.S, 1, 1))
	delivery("ESDTNFTTransfer/delivery-contract-with-call", base, uni.NFTTransfer(A0, S1, uni.S, 1, 1, f, []byte{7}))
	add("MultiESDTNFTTransfer/same-shard-fungible", base, uni.Multi(A0, B0, []uni.Ent{{Tok: uni.F, Nonce: 0, Q: 1}}))
	add("MultiESDTNFTTransfer/same-shard-mixed", base, uni.Multi(A0, B0, []uni.Ent{{Tok: uni.S, Nonce: 1, Q: 1}, {Tok: uni.F, Nonce: 0, Q: 1}}))
	add("MultiESDTNFTTransfer/same-shard-contract-with-call", base, uni.Multi(A0, S0, []uni.Ent{{Tok: uni.S, Nonce: 1, Q: 1}}, f))
	add("MultiESDTNFTTransfer/cross-shard-fungible", base, uni.Multi(A0, C1, []uni.Ent{{Tok: uni.F, Nonce: 0, Q: 1}}))
	add("MultiESDTNFTTransfer/cross-shard-mixed", base, uni.Multi(A0, C1, []uni.Ent{{Tok: uni.S, Nonce: 1, Q: 1}, {Tok: uni.F, Nonce: 0, Q: 1}}))
	add("MultiESDTNFTTransfer/cross-shard-3-tokens-with-call", base, uni.Multi(A0, S1, []uni.Ent{{Tok: uni.S, Nonce: 1, Q: 1}, {Tok: uni.S, Nonce: 2, Q: 1}, {Tok: uni.F, Nonce: 0, Q: 2}}, f, []byte{7}))
	delivery("MultiESDTNFTTransfer/delivery-fungible", base, uni.Multi(A0, C1, []uni.Ent{{Tok: uni.F, Nonce: 0, Q: 1}}))
	delivery("MultiESDTNFTTransfer/delivery-mixed", base, uni.Multi(A0, C1, []uni.Ent{{Tok: uni.S, Nonce: 1, Q: 1}, {Tok: uni.F, Nonce: 0, Q: 1}}))
	delivery("MultiESDTNFTTransfer/delivery-contract-with-call", base, uni.Multi(A0, S1, []uni.Ent{{Tok: uni.S, Nonce: 1, Q: 1}, {Tok: uni.S, Nonce: 2, Q: 1}}, f, []byte{7}))
	heavy := len(out)
	defer func() {
		for i := heavy; i < heavyEnd; i++ {
			out[i].Light = true
		}
	}()
	// the destination already holds so much of the same nonce that the sum needs one more byte than
	// the quantity sent (the entry written and priced at the destination is longer than the one sent)
	rich := after(base, uni.Call(A0, A0, vmcommon.BuiltInFunctionESDTNFTAddQuantity, uni.S, uni.Big(1), uni.Big(70000)),
		uni.NFTTransfer(A0, B0, uni.S, 1, 255), uni.NFTTransfer(A0, S0, uni.S, 1, 65535, f))
	add("ESDTNFTTransfer/same-shard-destination-holds-255", rich, uni.NFTTransfer(A0, B0, uni.S, 1, 1))
	add("ESDTNFTTransfer/same-shard-contract-holds-65536-with-call", rich, uni.NFTTransfer(A0, S0, uni.S, 1, 1, f))
	add("MultiESDTNFTTransfer/same-shard-destination-holds-255", rich, uni.Multi(A0, B0, []uni.Ent{{Tok: uni.S, Nonce: 1, Q: 1}, {Tok: uni.F, Nonce: 0, Q: 1}}))
	// attached calls with several arguments
	x, y := []byte("x"), []byte("yy")
	add("ESDTTransfer/to-contract-call-3-args", base, uni.ESDTTransfer(A0, S0, uni.F, 1, f, x, y, x))
	add("ESDTNFTTransfer/cross-shard-contract-call-2-args", base, uni.NFTTransfer(A0, S1, uni.S, 1, 1, f, x, y))
	add("MultiESDTNFTTransfer/same-shard-contract-call-2-args", base, uni.Multi(A0, S0, []uni.Ent{{Tok: uni.F, Nonce: 0, Q: 1}}, f, x, y))
	add("MultiESDTNFTTransfer/cross-shard-2-tokens-call-2-args", base, uni.Multi(A0, S1, []uni.Ent{{Tok: uni.S, Nonce: 1, Q: 1}, {Tok: uni.F, Nonce: 0, Q: 1}}, f, x, y))
	add("MultiESDTNFTTransfer/cross-shard-1-token-call-5-args", base, uni.Multi(A0, S1, []uni.Ent{{Tok: uni.F, Nonce: 0, Q: 1}}, f, x, y, x, y, x))
	delivery("MultiESDTNFTTransfer/delivery-contract-call-5-args", base, uni.Multi(A0, S1, []uni.Ent{{Tok: uni.F, Nonce: 0, Q: 1}}, f, x, y, x, y, x))
	heavyEnd = len(out)
	add("ESDTFreeze", base, uni.SysCall(B0, vmcommon.BuiltInFunctionESDTFreeze, uni.F))
	frozen := after(base, uni.SysCall(B0, vmcommon.BuiltInFunctionESDTFreeze, uni.F))
	add("ESDTUnFreeze", frozen, uni.SysCall(B0, vmcommon.BuiltInFunctionESDTUnFreeze, uni.F))
	add("ESDTWipe", frozen, uni.SysCall(B0, vmcommon.BuiltInFunctionESDTWipe, uni.F))
	add("ESDTPause", base, uni.PauseCall(0, vmcommon.BuiltInFunctionESDTPause, uni.F))
	add("ESDTUnPause", after(base, uni.PauseCall(0, vmcommon.BuiltInFunctionESDTPause, uni.F)), uni.PauseCall(0, vmcommon.BuiltInFunctionESDTUnPause, uni.F))
	add("ESDTSetRole", base, uni.SetRole(B0, uni.F, vmcommon.ESDTRoleLocalMint, vmcommon.ESDTRoleLocalBurn))
	add("ESDTUnSetRole", base, uni.UnSetRole(A0, uni.F, vmcommon.ESDTRoleLocalBurn))
	add("ESDTNFTCreateRoleTransfer/same-shard", base, uni.SysCall(A0, vmcommon.BuiltInFunctionESDTNFTCreateRoleTransfer, uni.S, B0))
	add("ESDTNFTCreateRoleTransfer/cross-shard", base, uni.SysCall(A0, vmcommon.BuiltInFunctionESDTNFTCreateRoleTransfer, uni.S, C1))
	delivery("ESDTNFTCreateRoleTransfer/delivery", base, uni.SysCall(A0, vmcommon.BuiltInFunctionESDTNFTCreateRoleTransfer, uni.S, C1))
	// the next owner already holds a role record for the token
	withRoles := after(base, uni.SetRole(B0, uni.S, vmcommon.ESDTRoleNFTBurn, vmcommon.ESDTRoleNFTAddQuantity), uni.SetRole(C1, uni.S, vmcommon.ESDTRoleNFTBurn))
	add("ESDTNFTCreateRoleTransfer/same-shard-next-owner-holds-roles", withRoles, uni.SysCall(A0, vmcommon.BuiltInFunctionESDTNFTCreateRoleTransfer, uni.S, B0))
	delivery("ESDTNFTCreateRoleTransfer/delivery-next-owner-holds-roles", withRoles, uni.SysCall(A0, vmcommon.BuiltInFunctionESDTNFTCreateRoleTransfer, uni.S, C1))
	// the role handed to the account that holds it (accepted: role and counter are written back)
	if _, legs := env.Step(base, uni.SysCall(A0, vmcommon.BuiltInFunctionESDTNFTCreateRoleTransfer, uni.S, A0)); len(legs) > 0 && legs[0].OK() {
		add("ESDTNFTCreateRoleTransfer/to-the-holder-itself", base, uni.SysCall(A0, vmcommon.BuiltInFunctionESDTNFTCreateRoleTransfer, uni.S, A0))
	}
	add("ESDTSetRole/account-holds-roles", withRoles, uni.SetRole(B0, uni.S, vmcommon.ESDTRoleNFTAddURI))
	add("ESDTUnSetRole/one-of-two", withRoles, uni.UnSetRole(B0, uni.S, vmcommon.ESDTRoleNFTBurn))
	add("ESDTUnSetRole/last-role", withRoles, uni.UnSetRole(C1, uni.S, vmcommon.ESDTRoleNFTBurn))
	add("SaveKeyValue/new-pair", base, uni.Call(A0, A0, vmcommon.BuiltInFunctionSaveKeyValue, []byte("new"), []byte("value")))
	add("SaveKeyValue/unchanged-growing-shrinking", base, uni.Call(A0, A0, vmcommon.BuiltInFunctionSaveKeyValue, []byte("k1"), []byte("vv"), []byte("k3"), []byte("vvvvv"), []byte("k2"), []byte("v")))
	add("SaveKeyValue/all-unchanged", base, uni.Call(A0, A0, vmcommon.BuiltInFunctionSaveKeyValue, []byte("k1"), []byte("vv"), []byte("k2"), []byte("vvvv")))
	add("SaveKeyValue/delete", base, uni.Call(A0, A0, vmcommon.BuiltInFunctionSaveKeyValue, []byte("k1"), []byte{}))
	// values much longer than their keys emptied, shrunk to one byte, emptied and set again in one call
	long := after(base, uni.Call(A0, A0, vmcommon.BuiltInFunctionSaveKeyValue, []byte("q"), bytes.Repeat([]byte("v"), 40), []byte("r"), bytes.Repeat([]byte("w"), 300)))
	add("SaveKeyValue/delete-long-values", long, uni.Call(A0, A0, vmcommon.BuiltInFunctionSaveKeyValue, []byte("q"), []byte{}, []byte("r"), []byte{}))
	add("SaveKeyValue/shrink-long-value-to-one-byte", long, uni.Call(A0, A0, vmcommon.BuiltInFunctionSaveKeyValue, []byte("r"), []byte("w")))
	add("SaveKeyValue/empty-then-set-again", long, uni.Call(A0, A0, vmcommon.BuiltInFunctionSaveKeyValue, []byte("q"), []byte{}, []byte("q"), bytes.Repeat([]byte("v"), 41)))
	// the next owner is already a creator (delivered twice, or set by an undisciplined system contract)
	twoCreators := after(base, uni.SetRole(B0, uni.S, vmcommon.ESDTRoleNFTCreate), uni.SetRole(C1, uni.S, vmcommon.ESDTRoleNFTCreate))
	add("ESDTNFTCreateRoleTransfer/next-owner-already-creator", twoCreators, uni.SysCall(A0, vmcommon.BuiltInFunctionESDTNFTCreateRoleTransfer, uni.S, B0))
	delivery("ESDTNFTCreateRoleTransfer/delivery-next-owner-already-creator", twoCreators, uni.SysCall(A0, vmcommon.BuiltInFunctionESDTNFTCreateRoleTransfer, uni.S, C1))
	add("ChangeOwnerAddress/local", base, uni.Call(A0, S0, vmcommon.BuiltInFunctionChangeOwnerAddress, B0))
	add("ChangeOwnerAddress/remote-sender-side", base, uni.Call(A0, S1, vmcommon.BuiltInFunctionChangeOwnerAddress, B0))
	// the destination-side half of the owner's cross-shard calls (forwarded user transaction, A4 ii)
	for _, fnArgs := range []struct {
		name string
		act  world.Action
	}{{"ChangeOwnerAddress/delivery-owner-in-another-shard", uni.Call(A0, uni.U1, vmcommon.BuiltInFunctionChangeOwnerAddress, B0)},
		{"ClaimDeveloperRewards/delivery-owner-in-another-shard", uni.Call(A0, uni.U1, vmcommon.BuiltInFunctionClaimDeveloperRewards)},
		{"ClaimDeveloperRewards/delivery-contract-owner-in-another-shard", withType(uni.Call(S0, uni.V1, vmcommon.BuiltInFunctionClaimDeveloperRewards), vmcommon.AsynchronousCall)},
		{"ChangeOwnerAddress/delivery-contract-owner-in-another-shard", withType(uni.Call(S0, uni.V1, vmcommon.BuiltInFunctionChangeOwnerAddress, B0), vmcommon.AsynchronousCall)}} {
		delivery(fnArgs.name, base, fnArgs.act)
	}
	add("ClaimDeveloperRewards/local", base, uni.Call(A0, S0, vmcommon.BuiltInFunctionClaimDeveloperRewards))
	add("ClaimDeveloperRewards/async", base, withType(uni.Call(A0, S0, vmcommon.BuiltInFunctionClaimDeveloperRewards), vmcommon.AsynchronousCall))
	add("ClaimDeveloperRewards/remote-sender-side", base, uni.Call(A0, S1, vmcommon.BuiltInFunctionClaimDeveloperRewards))
	add("ClaimDeveloperRewards/contract-owner-local", base, uni.Call(S0, uni.T0, vmcommon.BuiltInFunctionClaimDeveloperRewards))
	add("ChangeOwnerAddress/contract-owner-local", base, uni.Call(S0, uni.T0, vmcommon.BuiltInFunctionChangeOwnerAddress, B0))
	add("SetUserName/local", base, uni.Call(uni.D0, B0, vmcommon.BuiltInFunctionSetUserName, []byte("name")))
	add("SetUserName/forward", base, uni.Call(uni.D0, C1, vmcommon.BuiltInFunctionSetUserName, []byte("name")))
	delivery("SetUserName/delivery", base, uni.Call(uni.D0, C1, vmcommon.BuiltInFunctionSetUserName, []byte("name")))
	// refunds (A6)
	refundOf := func(name string, act world.Action) {
		w := base.Clone()
		w.Payable[string(S1)] = world.PayNo
		nw := after(w, act)
		if len(nw.Inflight) != 1 {
			panic("catalogue " + name + ": expected one message")
		}
		nw2, legs := env.Step(nw, uni.Deliver(0))
		if legs[0].OK() || legs[0].Refund == nil || len(nw2.Inflight) != 1 {
			panic("catalogue " + name + ": expected a refused delivery and a refund")
		}
		add(name, nw2, uni.Deliver(0))
	}
	refundOf("ESDTTransfer/refund", uni.ESDTTransfer(A0, S1, uni.F, 1))
	refundOf("ESDTNFTTransfer/refund", uni.NFTTransfer(A0, S1, uni.S, 1, 1))
	refundOf("MultiESDTNFTTransfer/refund", uni.Multi(A0, S1, []uni.Ent{{Tok: uni.S, Nonce: 1, Q: 1}, {Tok: uni.F, Nonce: 0, Q: 1}}))
	return out
}

func splitData(d []byte) (string, [][]byte, bool) {
	fn, args, err := world.ParseCallData(string(d))
	return fn, args, err == nil
}

// CheckCatalogue verifies that every class succeeds on the current tree (self-check) and covers
// all 23 names.
func CheckCatalogue(env *world.Env, cat []CatEntry) []string {
	var problems []string
	seen := map[string]bool{}
	for _, c := range cat {
		_, legs := env.Step(c.W, c.Act)
		if len(legs) == 0 || !legs[0].OK() {
			var err interface{}
			if len(legs) > 0 {
				err = legs[0].Err
				if legs[0].Panic != nil {
					err = legs[0].Panic
				}
			}
			problems = append(problems, fmt.Sprintf("catalogue class %s does not succeed: %v", c.Name, err))
			continue
		}
		seen[legs[0].Func] = true
	}
	for name := range env.Shards[0].Container.Keys() {
		if !seen[name] {
			problems = append(problems, "catalogue has no successful class for "+name)
		}
	}
	return problems
}
