package checks

import (
	"fmt"
	"strings"

	vmcommon "github.com/ElrondNetwork/elrond-vm-common"

	"verif/engine/explore"
	"verif/engine/spec"
	"verif/engine/uni"
	"verif/engine/world"
)

// ---------------------------------------------------------------------------------------------
// C03

func rolesOfMask(mask int) []string {
	var out []string
	for i, r := range uni.AllRoles {
		if mask&(1<<i) != 0 {
			out = append(out, r)
		}
	}
	return out
}

func gatedCalls(a []byte) []world.Action {
	return []world.Action{
		uni.Call(a, a, vmcommon.BuiltInFunctionESDTLocalMint, uni.F, uni.Big(1)),
		uni.Call(a, a, vmcommon.BuiltInFunctionESDTLocalBurn, uni.F, uni.Big(1)),
		uni.Create(a, uni.S, 1),
		uni.Create(a, uni.S, 2),
		uni.Call(a, a, vmcommon.BuiltInFunctionESDTNFTCreate, uni.S, []byte{1, 0, 0, 0, 0, 0, 0, 0, 0}, []byte("n"), uni.Big(100), []byte("h"), []byte("a"), []byte("u")),
		uni.Call(a, a, vmcommon.BuiltInFunctionESDTNFTCreate, uni.S, []byte{1, 0, 0, 0, 0, 0, 0, 0, 1}, []byte("n"), uni.Big(100), []byte("h"), []byte("a"), []byte("u")),
		uni.Call(a, a, vmcommon.BuiltInFunctionESDTNFTCreate, uni.S, []byte{0, 2}, []byte("n"), uni.Big(100), []byte("h"), []byte("a"), []byte("u")),
		uni.Call(a, a, vmcommon.BuiltInFunctionESDTNFTAddQuantity, uni.S, uni.Big(1), uni.Big(1)),
		uni.Call(a, a, vmcommon.BuiltInFunctionESDTNFTBurn, uni.S, uni.Big(1), uni.Big(1)),
		uni.Call(a, a, vmcommon.BuiltInFunctionESDTNFTAddURI, uni.S, uni.Big(1), []byte("v")),
		uni.Call(a, a, vmcommon.BuiltInFunctionESDTNFTUpdateAttributes, uni.S, uni.Big(1), []byte("b")),
	}
}

func c03Profiles(tier Tier) []*explore.Profile {
	o := menuOpts{thorough: tier.Thorough(), shards: 2}
	orc := []explore.Oracle{&authorityOracle{property: "C03", dns: map[string]bool{string(uni.D0): true}}}
	// (i) product: every subset of the 7 role names on the target tokens x subsets on other tokens
	product := &explore.Profile{
		Name: "role-product", EnvCfg: ledgerEnv(2), Depth: 1, Deadline: tierDeadline(tier), Oracles: orc,
		Seeds: func(env *world.Env) []explore.SeedState {
			b := uni.SeedBuilder(env, "mixed")
			b.Must(uni.UnSetRole(uni.A0, uni.S, uni.NFTRoles...))
			b.Must(uni.UnSetRole(uni.A0, uni.F, vmcommon.ESDTRoleLocalMint, vmcommon.ESDTRoleLocalBurn))
			clean := b.W
			var out []explore.SeedState
			for m := 0; m < 128; m++ {
				others := []int{0, 127, 127 &^ m}
				if tier.Thorough() {
					others = others[:0]
					for x := 0; x < 128; x++ {
						others = append(others, x)
					}
				}
				seen := map[int]bool{}
				for _, om := range others {
					if seen[om] {
						continue
					}
					seen[om] = true
					sb := &uni.Builder{Env: env, W: clean}
					if r := rolesOfMask(m); len(r) > 0 {
						sb.Must(uni.SetRole(uni.A0, uni.S, r...))
						sb.Must(uni.SetRole(uni.A0, uni.F, r...))
					}
					if r := rolesOfMask(om); len(r) > 0 {
						sb.Must(uni.SetRole(uni.A0, uni.R, r...))
						sb.Must(uni.SetRole(uni.A0, uni.F1, r...))
					}
					out = append(out, explore.SeedState{Name: fmt.Sprintf("roles-%02x-other-%02x", m, om), W: sb.W, Legs: sb.Legs, Failed: sb.Failed})
				}
			}
			// look-alike names (an undisciplined system contract stores whatever it is given): the
			// account holds every role except r, plus names that extend, truncate or re-case r
			for i, r := range uni.AllRoles {
				m := 127 &^ (1 << i)
				alikes := []string{r + "MultiShard", r + "X", r[:len(r)-1], strings.ToLower(r), strings.ToUpper(r), r + " ", " " + r, "ESDTRole", r + "\x00"}
				sb := &uni.Builder{Env: env, W: clean}
				sb.Must(uni.SetRole(uni.A0, uni.S, append(rolesOfMask(m), alikes...)...))
				sb.Must(uni.SetRole(uni.A0, uni.F, append(rolesOfMask(m), alikes...)...))
				out = append(out, explore.SeedState{Name: "look-alikes-of-" + r, W: sb.W, Legs: sb.Legs, Failed: sb.Failed})
				// the same with the look-alikes stored first: the real roles sit at positions 9..14
				sb2 := &uni.Builder{Env: env, W: clean}
				sb2.Must(uni.SetRole(uni.A0, uni.S, append(append([]string{}, alikes...), rolesOfMask(m)...)...))
				sb2.Must(uni.SetRole(uni.A0, uni.F, append(append([]string{}, alikes...), rolesOfMask(m)...)...))
				out = append(out, explore.SeedState{Name: "look-alikes-first-of-" + r, W: sb2.W, Legs: sb2.Legs, Failed: sb2.Failed})
			}
			return out
		},
		Menu: func(w *world.World) []world.Action {
			acts := gatedCalls(uni.A0)
			// the same calls carrying the flags and call types that exempt from *other* gates
			// (freeze, pause, payability) - none of them exempts from the role
			for _, g := range gatedCalls(uni.A0) {
				f := g
				f.ReturnAfterError = true
				cb := g
				cb.CallType = vmcommon.AsynchronousCallBack
				te := g
				te.CallType = vmcommon.ESDTTransferAndExecute
				acts = append(acts, f, cb, te)
			}
			// every single role taken away, and the create role handed over (role-effect clause:
			// whatever the position of the name in the stored list)
			for _, r := range uni.AllRoles {
				for _, tok := range [][]byte{uni.S, uni.F} {
					if spec.HasRole(w.Get(uni.A0), string(tok), r) {
						acts = append(acts, uni.UnSetRole(uni.A0, tok, r))
					}
				}
			}
			if spec.HasRole(w.Get(uni.A0), tS, vmcommon.ESDTRoleNFTCreate) {
				acts = append(acts, uni.SysCall(uni.A0, vmcommon.BuiltInFunctionESDTNFTCreateRoleTransfer, uni.S, uni.B0))
			}
			return acts
		},
	}
	// SetUserName under a configuration without any DNS address: nobody is entitled
	noDNS := &explore.Profile{
		Name: "no-dns-address", EnvCfg: world.EnvConfig{NumShards: 2, InitialEpoch: ledgerEnv(2).InitialEpoch}, Depth: 1, Deadline: tierDeadline(tier),
		Oracles: []explore.Oracle{&authorityOracle{property: "C03", dns: map[string]bool{}}},
		Seeds:   seedsOf("mixed"),
		Menu:    func(w *world.World) []world.Action { return accountMenu(w, o) },
	}
	depth := 3
	if tier.Thorough() {
		depth = 4
	}
	hist := &explore.Profile{
		Name: "authority", EnvCfg: ledgerEnv(2), Depth: depth, Deadline: tierDeadline(tier), Oracles: orc,
		Seeds: func(env *world.Env) []explore.SeedState {
			out := seedsOf("mixed", "handover")(env)
			// a second collection whose create-role holder has never created anything
			b := uni.SeedBuilder(env, "mixed")
			b.Must(uni.SetRole(uni.B0, uni.R, uni.NFTRoles...))
			return append(out, explore.SeedState{Name: "mixed+R-never-created", W: b.W, Legs: b.Legs, Failed: b.Failed})
		},
		Menu: func(w *world.World) []world.Action {
			acts := undisciplinedRoleMenu(w, o)
			for _, a := range users(o) {
				acts = append(acts, gatedCalls(a)...)
			}
			acts = append(acts, impostorMenu(w, o)...)
			acts = append(acts, accountMenu(w, o)...)
			acts = append(acts, handoverMenu(w, o, [][]byte{uni.S, uni.R})...)
			acts = append(acts, uni.Create(uni.B0, uni.R, 1), uni.Create(uni.C1, uni.R, 1), uni.Create(uni.A0, uni.R, 1))
			acts = append(acts, freezeMenu(w, o, true)...)
			acts = append(acts, deliveries(w)...)
			return acts
		},
	}
	// the application edits its own DNS map after the container was built: the configuration the
	// container was built with stays in force (d0 entitled, b0 and s0 not)
	edited := &explore.Profile{
		Name: "dns-map-edited-after-construction", EnvCfg: ledgerEnv(2), Depth: 1, Deadline: tierDeadline(tier), Workers: 1,
		Oracles: orc,
		Seeds: func(env *world.Env) []explore.SeedState {
			delete(env.DNSMap, string(uni.D0))
			env.DNSMap[string(uni.S0)] = struct{}{}
			env.DNSMap[string(uni.B0)] = struct{}{}
			return seedsOf("mixed")(env)
		},
		Menu: func(w *world.World) []world.Action { return accountMenu(w, o) },
	}
	return []*explore.Profile{product, hist, noDNS, edited}
}

// undisciplinedRoleMenu: the system contract sets and unsets single roles without discipline A7.
func undisciplinedRoleMenu(w *world.World, o menuOpts) []world.Action {
	var acts []world.Action
	for _, a := range users(o) {
		for _, tok := range [][]byte{uni.F, uni.S} {
			// several roles in one message, held and not held ones mixed, in both orders
			if len(spec.Roles(w.Get(a), string(tok))) > 0 {
				acts = append(acts, uni.UnSetRole(a, tok, uni.AllRoles...))
				rev := make([]string, len(uni.AllRoles))
				for i, r := range uni.AllRoles {
					rev[len(rev)-1-i] = r
				}
				acts = append(acts, uni.UnSetRole(a, tok, rev...))
				acts = append(acts, uni.UnSetRole(a, tok, vmcommon.ESDTRoleNFTAddQuantity, vmcommon.ESDTRoleNFTBurn, vmcommon.ESDTRoleLocalBurn))
			}
			for _, r := range uni.AllRoles {
				if !o.thorough && (r == vmcommon.ESDTRoleNFTAddURI || r == vmcommon.ESDTRoleNFTBurn) {
					continue
				}
				if spec.HasRole(w.Get(a), string(tok), r) {
					acts = append(acts, uni.UnSetRole(a, tok, r))
				} else if string(a) != string(uni.C1) || o.thorough {
					acts = append(acts, uni.SetRole(a, tok, r))
				}
			}
		}
	}
	return acts
}

func init() { LedgerProfiles["C03"] = c03Profiles }

// C03 decides "privileged operations require the right authority".
func C03(tier Tier) int {
	req := []string{"role-list-changed-by-system", "frozen-flag-changed-by-system", "pause-flag-changed-by-system", "owner-changed-by-owner",
		"reward-claimed-by-owner", "username-set-by-dns", "sender:ESDTFreeze:err", "sender:ESDTSetRole:err", "sender:ESDTPause:err",
		"sender:ESDTNFTCreateRoleTransfer:err", "sender:ChangeOwnerAddress:err", "sender:ClaimDeveloperRewards:err", "sender:SetUserName:err"}
	for fn := range gatedRole {
		req = append(req, "gated-ok:"+fn, "gated-rejected:"+fn)
	}
	return RunLedger("C03", tier, c03Profiles(tier), req)
}

// ---------------------------------------------------------------------------------------------
// C05

func c05Profiles(tier Tier) []*explore.Profile {
	o := menuOpts{thorough: tier.Thorough(), shards: 2}
	orc := []explore.Oracle{&frameOracle{property: "C05"}}
	depth := 2
	if tier.Thorough() {
		depth = 3
	}
	frame := &explore.Profile{
		Name: "frame", EnvCfg: ledgerEnv(2), Seeds: seedsOf("mixed", "frozen", "handover"), Depth: depth, Deadline: tierDeadline(tier), Oracles: orc,
		Menu: func(w *world.World) []world.Action {
			acts := transferMenu(w, menuOpts{shards: 2})
			acts = append(acts, supplyMenu(w, o)...)
			acts = append(acts, roleMenu(w, o, [][]byte{uni.F, uni.S})...)
			acts = append(acts, freezeMenu(w, menuOpts{thorough: true, shards: 2, nftFreeze: true}, true)...)
			// a freeze marker on the key of the nonce the creator issues next (the account holds
			// nothing there): the next creation must not write over it
			if next := w.Ghost.Highest[tS] + 1; next < 250 {
				acts = append(acts, uni.SysCall(uni.A0, vmcommon.BuiltInFunctionESDTFreeze, []byte(tS+spec.NonceSuffix(next))))
			}
			acts = append(acts, accountMenu(w, o)...)
			acts = append(acts, impostorMenu(w, o)...)
			acts = append(acts, deliveries(w)...)
			acts = append(acts, boundaryNonceCalls()...)
			// every role taken away at once, the create role included (the frame condition does not
			// depend on the system contract's discipline)
			for _, a := range users(o) {
				for _, tok := range [][]byte{uni.F, uni.S} {
					if len(spec.Roles(w.Get(a), string(tok))) > 0 {
						acts = append(acts, uni.UnSetRole(a, tok, uni.AllRoles...))
					}
				}
			}
			return acts
		},
	}
	kv := &explore.Profile{
		Name: "kv", EnvCfg: ledgerEnv(2), Depth: 1, Deadline: tierDeadline(tier), Oracles: orc,
		Seeds: func(env *world.Env) []explore.SeedState {
			b := uni.SeedBuilder(env, "mixed")
			b.Must(uni.Call(uni.A0, uni.A0, vmcommon.BuiltInFunctionSaveKeyValue, []byte("k"), []byte("vv"), []byte("ELRONx"), []byte("y")))
			return []explore.SeedState{{Name: "mixed+kv", W: b.W, Legs: b.Legs, Failed: b.Failed}}
		},
		Menu: func(w *world.World) []world.Action { return kvMenu(w, tier) },
	}
	return []*explore.Profile{frame, kv, highNonceProfile("high-nonce", tier, orc, 2), highNonceAliasedProfile("high-nonce-aliased", tier, orc, 1)}
}

func kvKeys(w *world.World) [][]byte {
	var keys [][]byte
	seen := map[string]bool{}
	add := func(k []byte) {
		if !seen[string(k)] {
			seen[string(k)] = true
			keys = append(keys, append([]byte{}, k...))
		}
	}
	for _, full := range []string{spec.TokPrefix + tF, spec.RolePrefix + tF, spec.NoncePrefix + tS} {
		for l := 0; l <= len(full); l++ {
			p := []byte(full[:l])
			add(p)
			add(append(append([]byte{}, p...), 'x'))
			add(append(append([]byte{}, p...), 0))
			for i := 0; i < l; i++ {
				q := append([]byte{}, p...)
				q[i] ^= 0x20 // flip case
				add(q)
				q2 := append([]byte{}, p...)
				q2[i] = '_'
				add(q2)
			}
		}
	}
	// live keys of the seed
	if a := w.Get(uni.A0); a != nil {
		for k := range a.Storage {
			add([]byte(k))
		}
	}
	// the protected prefix occurring more than once, and keys of tokens whose identifier itself
	// contains the prefix
	for _, k := range []string{"ELRONDELROND", "ELRONDxELROND", "ELRONDELRONDx", "xELRONDELROND", "ELRONELROND", "ELROND ELROND",
		spec.TokPrefix + "ELROND-a1b2c3", spec.RolePrefix + "ELROND-a1b2c3", spec.NoncePrefix + "ELROND-a1b2c3", spec.TokPrefix + tF + "ELROND", "ELRONDELRONDELROND"} {
		add([]byte(k))
	}
	add([]byte("k"))
	add([]byte("ELRONx"))
	add([]byte("ELROND"))
	add([]byte(" ELROND"))
	return keys
}

func kvMenu(w *world.World, tier Tier) []world.Action {
	var acts []world.Action
	values := [][]byte{{}, []byte("vv"), []byte("v"), []byte("vvvv")}
	// values that differ from the stored "vv" in letter case only, and pairs of binary values that
	// are both invalid UTF-8 and differ at the same position
	caseValues := [][]byte{[]byte("VV"), []byte("Vv"), {0x00, 0x80}, {0x00, 0x81}, {0xff}, {0xfe}}
	keys := kvKeys(w)
	type cr struct{ c, r []byte }
	callers := []cr{{uni.A0, uni.A0}, {uni.B0, uni.A0}, {uni.S0, uni.S0}, {uni.A0, uni.S0}}
	for _, k := range keys {
		for _, v := range values {
			for _, x := range callers {
				acts = append(acts, uni.Call(x.c, x.r, vmcommon.BuiltInFunctionSaveKeyValue, k, v))
			}
			// the key as second pair after a harmless first one, and argument counts 0..5
			acts = append(acts, uni.Call(uni.A0, uni.A0, vmcommon.BuiltInFunctionSaveKeyValue, []byte("j"), []byte("1"), k, v))
		}
		acts = append(acts, uni.Call(uni.A0, uni.A0, vmcommon.BuiltInFunctionSaveKeyValue, k))
		acts = append(acts, uni.Call(uni.A0, uni.A0, vmcommon.BuiltInFunctionSaveKeyValue, k, []byte("v"), []byte("j")))
		acts = append(acts, uni.Call(uni.A0, uni.A0, vmcommon.BuiltInFunctionSaveKeyValue, []byte("j"), []byte("1"), []byte("i"), []byte("2"), k))
	}
	acts = append(acts, uni.Call(uni.A0, uni.A0, vmcommon.BuiltInFunctionSaveKeyValue))
	// the key in every pair position of calls with 3..6 pairs (harmless keys elsewhere)
	filler := func(i int) [][]byte { return [][]byte{[]byte{'j', byte('0' + i)}, []byte("1")} }
	for _, k := range keys {
		for _, v := range [][]byte{{}, []byte("v")} {
			for pairs := 3; pairs <= 6; pairs++ {
				for pos := 0; pos < pairs; pos++ {
					if pos < 2 && pairs > 3 {
						continue
					}
					var args [][]byte
					for i := 0; i < pairs; i++ {
						if i == pos {
							args = append(args, k, v)
						} else {
							args = append(args, filler(i)...)
						}
					}
					acts = append(acts, uni.Call(uni.A0, uni.A0, vmcommon.BuiltInFunctionSaveKeyValue, args...))
				}
			}
		}
	}
	// the value of one pair is byte-equal to the (protected) key of the next pair
	for _, pk := range []string{spec.TokPrefix + tF, spec.RolePrefix + tF, spec.NoncePrefix + tS, "ELROND"} {
		acts = append(acts, uni.Call(uni.A0, uni.A0, vmcommon.BuiltInFunctionSaveKeyValue, []byte("j"), []byte(pk), []byte(pk), []byte("v")),
			uni.Call(uni.A0, uni.A0, vmcommon.BuiltInFunctionSaveKeyValue, []byte("j"), []byte(pk), []byte(pk), []byte{}),
			uni.Call(uni.A0, uni.A0, vmcommon.BuiltInFunctionSaveKeyValue, []byte(pk), []byte(pk)),
			uni.Call(uni.A0, uni.A0, vmcommon.BuiltInFunctionSaveKeyValue, []byte("j"), []byte("1"), []byte("i"), []byte(pk), []byte(pk), []byte("v")))
	}
	for _, x := range caseValues {
		acts = append(acts, uni.Call(uni.A0, uni.A0, vmcommon.BuiltInFunctionSaveKeyValue, []byte("k"), x))
		for _, y := range caseValues {
			// first x is stored, then y replaces it within the same call
			acts = append(acts, uni.Call(uni.A0, uni.A0, vmcommon.BuiltInFunctionSaveKeyValue, []byte("n"), x, []byte("n"), y))
		}
	}
	// the same key listed several times in one call (stored: k=vv, n absent), adjacent or not; the
	// last listed value decides, also when it equals what was stored before the call
	for _, k := range [][]byte{[]byte("k"), []byte("n")} {
		for _, x := range values {
			for _, y := range values {
				acts = append(acts, uni.Call(uni.A0, uni.A0, vmcommon.BuiltInFunctionSaveKeyValue, k, x, k, y))
				acts = append(acts, uni.Call(uni.A0, uni.A0, vmcommon.BuiltInFunctionSaveKeyValue, k, x, []byte("j"), []byte("1"), k, y))
				for _, z := range values {
					acts = append(acts, uni.Call(uni.A0, uni.A0, vmcommon.BuiltInFunctionSaveKeyValue, k, x, k, y, k, z))
				}
			}
		}
	}
	return acts
}

func init() { LedgerProfiles["C05"] = c05Profiles }

// C05 decides "protected namespace and bounded footprint".
func C05(tier Tier) int {
	req := []string{"kv-accepted", "sender:SaveKeyValue:err", "field-change-in-footprint:ChangeOwnerAddress", "field-change-in-footprint:ClaimDeveloperRewards",
		"field-change-in-footprint:SetUserName", "key-change-in-footprint:ESDTPause", "key-change-in-footprint:ESDTNFTCreateRoleTransfer",
		"key-change-in-footprint:MultiESDTNFTTransfer", "key-change-in-footprint:ESDTWipe", "key-change-in-footprint:ESDTSetRole"}
	return RunLedger("C05", tier, c05Profiles(tier), append(req, "high-nonce-reached"))
}

// ---------------------------------------------------------------------------------------------
// C08

type metaTuple struct {
	name, roy, hash, attr []byte
	uris                  [][]byte
	q                     int64
}

func metaTuples() []metaTuple {
	var out []metaTuple
	big300 := make([]byte, 300)
	for i := range big300 {
		big300[i] = byte(i)
	}
	for _, name := range [][]byte{{}, []byte("n")} {
		for _, roy := range [][]byte{{}, uni.Big(10000), uni.Big(10001), {1, 0, 0, 0, 1}, {0x80, 0, 0, 0}, {0xff, 0xff, 0xff, 0xff}, {0, 0xc0, 0, 0, 0},
			{1, 2, 3, 4, 0x90, 0, 0, 0}, {0x7f, 0xff, 0xff, 0xff}, {1, 0, 0, 0x27, 0x10}, {1, 0, 0, 0, 0, 0, 0, 0, 1}} {
			for _, hash := range [][]byte{{}, []byte("h"), []byte("g")} {
				for _, attr := range [][]byte{{}, []byte("a"), big300} {
					for _, uris := range [][][]byte{{[]byte("u")}, {[]byte("u"), {}}, {[]byte("u"), []byte("v"), []byte("w")}} {
						for _, q := range []int64{1, 3} {
							out = append(out, metaTuple{name, roy, hash, attr, uris, q})
						}
					}
				}
			}
		}
	}
	return out
}

func createWith(a, tok []byte, m metaTuple) world.Action {
	args := [][]byte{tok, uni.Big(m.q), m.name, m.roy, m.hash, m.attr}
	args = append(args, m.uris...)
	return uni.Call(a, a, vmcommon.BuiltInFunctionESDTNFTCreate, args...)
}

func hopMenu(w *world.World, o menuOpts, tok []byte, nonces []int64, withUpdates bool) []world.Action {
	var acts []world.Action
	holders := [][]byte{uni.A0, uni.B0, uni.C1, uni.E2}
	for _, from := range holders {
		for _, n := range nonces {
			if held(w, from, string(tok)+spec.NonceSuffix(uint64(n))) == 0 {
				continue
			}
			for _, to := range holders {
				if string(to) == string(from) {
					continue
				}
				acts = append(acts, uni.NFTTransfer(from, to, tok, n, 1))
				acts = append(acts, uni.Multi(from, to, []uni.Ent{{Tok: tok, Nonce: n, Q: 1}}))
			}
			// to the non-payable contract on the other shard: the delivery is refused and a refund
			// comes back (possibly after the sender's own copies were updated)
			if string(from) == string(uni.A0) || string(from) == string(uni.B0) {
				acts = append(acts, uni.NFTTransfer(from, uni.S1c, tok, n, 1))
				if withUpdates {
					acts = append(acts, uni.Multi(from, uni.S1c, []uni.Ent{{Tok: tok, Nonce: n, Q: 1}}))
				}
			}
			if withUpdates {
				acts = append(acts, uni.Call(from, from, vmcommon.BuiltInFunctionESDTNFTAddURI, tok, uni.Big(n), []byte("x"), []byte{}))
				acts = append(acts, uni.Call(from, from, vmcommon.BuiltInFunctionESDTNFTUpdateAttributes, tok, uni.Big(n), []byte("zz")))
			}
		}
	}
	// updates on absent holdings
	if withUpdates {
		acts = append(acts, uni.Call(uni.B0, uni.B0, vmcommon.BuiltInFunctionESDTNFTAddURI, tok, uni.Big(9), []byte("x")))
		acts = append(acts, uni.Call(uni.A0, uni.A0, vmcommon.BuiltInFunctionESDTNFTUpdateAttributes, tok, uni.Big(9), []byte("zz")))
	}
	acts = append(acts, deliveries(w)...)
	return acts
}

func c08Profiles(tier Tier) []*explore.Profile {
	o := menuOpts{thorough: tier.Thorough(), shards: 2}
	orc := []explore.Oracle{&metaOracle{property: "C08"}}
	tuples := metaTuples()
	// creation product: every tuple is created (accepted or rejected) and, when accepted, hopped once
	create := &explore.Profile{
		Name: "create-product", EnvCfg: ledgerEnv(2), Depth: 3, Deadline: tierDeadline(tier), Oracles: orc, WithGhost: true,
		Seeds: func(env *world.Env) []explore.SeedState {
			b := uni.NewBuilder(env)
			b.Must(uni.SetRole(uni.A0, uni.S, uni.NFTRoles...))
			return []explore.SeedState{{Name: "roles-only", W: b.W, Legs: b.Legs, Failed: b.Failed}}
		},
		Menu: func(w *world.World) []world.Action {
			if w.Ghost.Highest[tS] == 0 {
				var acts []world.Action
				for _, m := range tuples {
					acts = append(acts, createWith(uni.A0, uni.S, m))
				}
				return acts
			}
			return hopMenu(w, o, uni.S, []int64{1}, false)
		},
	}
	depth := 7
	if tier.Thorough() {
		depth = 9
	}
	// routes: chains of hops over all four kinds, destinations holding or not holding the same NFT,
	// metadata updates between hops
	routes := &explore.Profile{
		Name: "routes", EnvCfg: ledgerEnv(2), Depth: depth, Deadline: tierDeadline(tier), Oracles: orc,
		Seeds: func(env *world.Env) []explore.SeedState {
			var out []explore.SeedState
			for i, m := range []metaTuple{tuples[0], tuples[len(tuples)-1], tuples[len(tuples)/2+1]} {
				b := uni.NewBuilder(env)
				b.Must(uni.SetRole(uni.A0, uni.S, uni.NFTRoles...))
				m.q = 3
				b.Must(createWith(uni.A0, uni.S, m))
				if i == 1 {
					b.Must(uni.SetRole(uni.B0, uni.S, vmcommon.ESDTRoleNFTAddURI, vmcommon.ESDTRoleNFTUpdateAttributes))
				}
				out = append(out, explore.SeedState{Name: fmt.Sprintf("created-%d", i), W: b.W, Legs: b.Legs, Failed: b.Failed})
			}
			return out
		},
		Menu: func(w *world.World) []world.Action { return hopMenu(w, o, uni.S, []int64{1}, true) },
	}
	// the system contract freezes and releases single holdings (ESDTFreeze / ESDTUnFreeze of
	// token||nonce) between the hops: no control call may alter the metadata of the holding it flags
	freezeCycle := &explore.Profile{
		Name: "freeze-cycle", EnvCfg: ledgerEnv(2), Depth: depth - 3, Deadline: tierDeadline(tier), Oracles: orc,
		Seeds: func(env *world.Env) []explore.SeedState {
			out := routes.Seeds(env)
			// two NFTs of one collection, the first with every field filled, the second as sparse
			// as a creation allows: sent together, each has to arrive with its own metadata
			b := uni.NewBuilder(env)
			b.Must(uni.SetRole(uni.A0, uni.S, uni.NFTRoles...))
			b.Must(createWith(uni.A0, uni.S, metaTuple{name: []byte("first"), roy: uni.Big(500), hash: []byte("hash-1"), attr: []byte("attributes-1"), uris: [][]byte{[]byte("uri-1a"), []byte("uri-1b")}, q: 2}))
			b.Must(createWith(uni.A0, uni.S, metaTuple{name: []byte("n"), roy: uni.Big(0), hash: []byte{}, attr: []byte{}, uris: [][]byte{{}}, q: 2}))
			return append(out, explore.SeedState{Name: "rich-and-sparse", W: b.W, Legs: b.Legs, Failed: b.Failed})
		},
		Menu: func(w *world.World) []world.Action {
			acts := append(append(hopMenu(w, o, uni.S, []int64{1}, false), nftFreezeMenu(w, [][]byte{uni.A0, uni.B0, uni.C1})...), forgedArrivals(w)...)
			if held(w, uni.A0, tS1) > 0 && held(w, uni.A0, tS2) > 0 {
				for _, to := range [][]byte{uni.B0, uni.C1} {
					acts = append(acts, uni.Multi(uni.A0, to, []uni.Ent{{Tok: uni.S, Nonce: 1, Q: 1}, {Tok: uni.S, Nonce: 2, Q: 1}}),
						uni.Multi(uni.A0, to, []uni.Ent{{Tok: uni.S, Nonce: 2, Q: 1}, {Tok: uni.S, Nonce: 1, Q: 1}}))
				}
			}
			return acts
		},
	}
	// two creators (undisciplined system contract): the same (token, nonce) with different hashes
	two := &explore.Profile{
		Name: "two-creators", EnvCfg: ledgerEnv(2), Depth: depth - 2, Deadline: tierDeadline(tier), Oracles: orc,
		Seeds: func(env *world.Env) []explore.SeedState {
			b := uni.SeedBuilder(env, "sft")
			b.Must(uni.SetRole(uni.E2, uni.S, uni.NFTRoles...))
			m := metaTuple{name: []byte("n"), roy: uni.Big(5), hash: []byte("OTHER"), attr: []byte("a"), uris: [][]byte{[]byte("u")}, q: 3}
			b.Must(createWith(uni.E2, uni.S, m))
			// the same with an empty hash on one side (an empty hash is a legal hash)
			b2 := uni.SeedBuilder(env, "sft")
			b2.Must(uni.SetRole(uni.E2, uni.S, uni.NFTRoles...))
			m2 := metaTuple{name: []byte("n"), roy: uni.Big(5), hash: []byte{}, attr: []byte("a"), uris: [][]byte{[]byte("u")}, q: 3}
			b2.Must(createWith(uni.E2, uni.S, m2))
			// a0 has sent its whole holding to a contract that refuses it: the refund is in flight
			// while a0 can receive the other creator's NFT under the same key
			b3 := uni.SeedBuilder(env, "sft")
			b3.Must(uni.SetRole(uni.E2, uni.S, uni.NFTRoles...))
			b3.Must(createWith(uni.E2, uni.S, m))
			if h := held(b3.W, uni.A0, tS1); h > 0 {
				b3.Must(uni.NFTTransfer(uni.A0, uni.S1c, uni.S, 1, h))
				b3.Refused(uni.Deliver(0))
				if len(b3.W.Inflight) != 1 || !b3.W.Inflight[0].Refund {
					b3.Fail("two-creators-refund: the refused delivery did not leave a refund in flight")
				}
			}
			// hashes that differ only in letter case ("h" is the hash of the sft seed's creations)
			b4 := uni.SeedBuilder(env, "sft")
			b4.Must(uni.SetRole(uni.E2, uni.S, uni.NFTRoles...))
			b4.Must(createWith(uni.E2, uni.S, metaTuple{name: []byte("n"), roy: uni.Big(5), hash: []byte("H"), attr: []byte("a"), uris: [][]byte{[]byte("u")}, q: 3}))
			// hashes that are invalid UTF-8 at the same position and differ there
			b5 := uni.NewBuilder(env)
			b5.Must(uni.SetRole(uni.A0, uni.S, uni.NFTRoles...))
			b5.Must(uni.SetRole(uni.E2, uni.S, uni.NFTRoles...))
			b5.Must(createWith(uni.A0, uni.S, metaTuple{name: []byte("n"), roy: uni.Big(5), hash: []byte{0xff, 0x01}, attr: []byte("a"), uris: [][]byte{[]byte("u")}, q: 3}))
			b5.Must(createWith(uni.E2, uni.S, metaTuple{name: []byte("n"), roy: uni.Big(5), hash: []byte{0xfe, 0x01}, attr: []byte("a"), uris: [][]byte{[]byte("u")}, q: 3}))
			return []explore.SeedState{{Name: "two-creators", W: b.W, Legs: b.Legs, Failed: b.Failed}, {Name: "two-creators-empty-hash", W: b2.W, Legs: b2.Legs, Failed: b2.Failed},
				{Name: "two-creators-refund", W: b3.W, Legs: b3.Legs, Failed: b3.Failed}, {Name: "two-creators-letter-case", W: b4.W, Legs: b4.Legs, Failed: b4.Failed},
				{Name: "two-creators-invalid-utf8", W: b5.W, Legs: b5.Legs, Failed: b5.Failed}}
		},
		Menu: func(w *world.World) []world.Action { return hopMenu(w, o, uni.S, []int64{1}, false) },
	}
	return []*explore.Profile{create, routes, freezeCycle, two, highNonceProfile("high-nonce", tier, orc, 2)}
}

func init() { LedgerProfiles["C08"] = c08Profiles }

// C08 decides "NFT metadata travels intact with the tokens".
func C08(tier Tier) int {
	req := []string{"create-metadata-checked", "metadata-update-checked:ESDTNFTAddURI", "metadata-update-checked:ESDTNFTUpdateAttributes",
		"hop-metadata-intact:ESDTNFTTransfer:sender", "hop-metadata-intact:ESDTNFTTransfer:dest", "hop-metadata-intact:MultiESDTNFTTransfer:sender",
		"hop-metadata-intact:MultiESDTNFTTransfer:dest", "payload-metadata-intact:ESDTNFTTransfer", "payload-metadata-intact:MultiESDTNFTTransfer",
		"sender:ESDTNFTCreate:err", "dest:ESDTNFTTransfer:err", "sender:ESDTNFTTransfer:err"}
	return RunLedger("C08", tier, c08Profiles(tier), append(req, "high-nonce-reached"))
}
