package checks

import (
	"bytes"
	"math/big"

	vmcommon "github.com/ElrondNetwork/elrond-vm-common"
	"github.com/ElrondNetwork/elrond-vm-common/data/esdt"

	"verif/engine/spec"
	"verif/engine/uni"
	"verif/engine/world"
)

func users(o menuOpts) [][]byte {
	u := [][]byte{uni.A0, uni.B0}
	if o.shards > 1 {
		u = append(u, uni.C1)
	}
	return append(u, o.extra...)
}

func dedupQ(qs ...int64) []int64 {
	seen := map[int64]bool{}
	var out []int64
	for _, q := range qs {
		if q < 0 || seen[q] {
			continue
		}
		seen[q] = true
		out = append(out, q)
	}
	return out
}

// supplyMenu: mint / burn / create / add-quantity / NFT burn / metadata updates by every account,
// role holder or not (DESIGN.md §5 C02).
func supplyMenu(w *world.World, o menuOpts) []world.Action {
	var acts []world.Action
	// a contract burns what it holds (the burn is forwarded to the system contract; the debit must
	// happen all the same), plain and as an asynchronous call
	for _, c := range [][]byte{uni.S0} {
		if h := held(w, c, tF); h > 0 {
			for _, q := range dedupQ(1, h, h+1) {
				b := uni.Call(c, uni.ESDT, vmcommon.BuiltInFunctionESDTBurn, uni.F, uni.Big(q))
				ab := b
				ab.CallType = vmcommon.AsynchronousCall
				acts = append(acts, b, ab)
			}
		}
	}
	for _, a := range users(o) {
		for _, tok := range [][]byte{uni.F, uni.F1, uni.S} {
			h := held(w, a, string(tok))
			for _, q := range dedupQ(0, 1, 2) {
				acts = append(acts, uni.Call(a, a, vmcommon.BuiltInFunctionESDTLocalMint, tok, uni.Big(q)))
			}
			if h > 0 || string(tok) == tF {
				for _, q := range dedupQ(0, 1, h, h+1) {
					acts = append(acts, uni.Call(a, a, vmcommon.BuiltInFunctionESDTLocalBurn, tok, uni.Big(q)))
					if string(tok) != tS {
						acts = append(acts, uni.Call(a, uni.ESDT, vmcommon.BuiltInFunctionESDTBurn, tok, uni.Big(q)))
					}
				}
			}
		}
		for _, tok := range [][]byte{uni.S, uni.F} {
			for _, q := range dedupQ(0, 1, 2) {
				acts = append(acts, uni.Create(a, tok, q))
			}
			maxN := int64(w.Ghost.Highest[string(tok)])
			if maxN > 3 {
				maxN = 3
			}
			if string(tok) == tF {
				maxN = 1
			}
			for n := int64(1); n <= maxN; n++ {
				h := held(w, a, string(tok)+spec.NonceSuffix(uint64(n)))
				if h == 0 && n > 1 {
					continue
				}
				for _, q := range dedupQ(0, 1) {
					acts = append(acts, uni.Call(a, a, vmcommon.BuiltInFunctionESDTNFTAddQuantity, tok, uni.Big(n), uni.Big(q)))
				}
				for _, q := range dedupQ(0, 1, h, h+1) {
					acts = append(acts, uni.Call(a, a, vmcommon.BuiltInFunctionESDTNFTBurn, tok, uni.Big(n), uni.Big(q)))
				}
				acts = append(acts, uni.Call(a, a, vmcommon.BuiltInFunctionESDTNFTAddURI, tok, uni.Big(n), []byte("v")))
				acts = append(acts, uni.Call(a, a, vmcommon.BuiltInFunctionESDTNFTUpdateAttributes, tok, uni.Big(n), []byte("b")))
			}
		}
	}
	return acts
}

func anyHolder(w *world.World, tok string, role string) []byte {
	for _, s := range w.Shards {
		for _, a := range s.Accts {
			if spec.HasRole(a, tok, role) {
				return a.Addr
			}
		}
	}
	return nil
}

func handoverInFlight(w *world.World, tok string) bool {
	for _, m := range w.Inflight {
		fn, args, ok := spec.SplitData(m.Data)
		if ok && fn == vmcommon.BuiltInFunctionESDTNFTCreateRoleTransfer && len(args) > 0 && string(args[0]) == tok {
			return true
		}
	}
	return false
}

// roleMenu: the system contract's role management under discipline A7 (a)-(c).
func roleMenu(w *world.World, o menuOpts, toks [][]byte) []world.Action {
	var acts []world.Action
	for _, tok := range toks {
		kind := TokKind(string(tok))
		var roles []string
		if kind == "fungible" {
			roles = []string{vmcommon.ESDTRoleLocalMint, vmcommon.ESDTRoleLocalBurn}
		} else {
			roles = uni.NFTRoles
		}
		for _, a := range users(o) {
			acc := w.Get(a)
			for _, r := range roles {
				_ = acc
				has := w.GhostHasRole(a, string(tok), r) // what the system contract believes (A7 a)
				if r == vmcommon.ESDTRoleNFTCreate {
					if !has && anyHolder(w, string(tok), r) == nil && !handoverInFlight(w, string(tok)) && w.Ghost.Highest[string(tok)] == 0 {
						acts = append(acts, uni.SetRole(a, tok, r))
					}
					continue // the system contract never unsets the create role (A7 b)
				}
				if has {
					acts = append(acts, uni.UnSetRole(a, tok, r))
				} else {
					acts = append(acts, uni.SetRole(a, tok, r))
				}
			}
		}
		// several held roles removed by one message
		for _, a := range users(o) {
			var heldRoles []string
			for _, r := range roles {
				if r != vmcommon.ESDTRoleNFTCreate && w.GhostHasRole(a, string(tok), r) {
					heldRoles = append(heldRoles, r)
				}
			}
			if len(heldRoles) >= 2 {
				acts = append(acts, uni.UnSetRole(a, tok, heldRoles[:2]...))
				// in the reverse of the granting order as well
				acts = append(acts, uni.UnSetRole(a, tok, heldRoles[len(heldRoles)-1], heldRoles[0]))
				if len(heldRoles) > 2 {
					acts = append(acts, uni.UnSetRole(a, tok, heldRoles...))
				}
			}
		}
		if kind == "nft" {
			if cur := anyHolder(w, string(tok), vmcommon.ESDTRoleNFTCreate); cur != nil && !handoverInFlight(w, string(tok)) {
				for _, next := range users(o) {
					if string(next) != string(cur) {
						acts = append(acts, uni.SysCall(cur, vmcommon.BuiltInFunctionESDTNFTCreateRoleTransfer, tok, next))
					}
				}
			}
		}
	}
	return acts
}

// accountMenu: SaveKeyValue, ChangeOwnerAddress, ClaimDeveloperRewards, SetUserName by everybody.
func accountMenu(w *world.World, o menuOpts) []world.Action {
	var acts []world.Action
	contracts := [][]byte{uni.S0}
	if o.shards > 1 {
		// s1 is owned on its own shard, u1 by a user and v1 by a contract of the other shard
		contracts = append(contracts, uni.S1c, uni.U1, uni.V1)
	}
	callers := append(users(o), uni.S0, uni.D0)
	for _, c := range callers {
		for _, k := range contracts {
			for _, nw := range [][]byte{uni.B0, uni.B0[:31]} {
				acts = append(acts, uni.Call(c, k, vmcommon.BuiltInFunctionChangeOwnerAddress, nw))
			}
			acts = append(acts, uni.Call(c, k, vmcommon.BuiltInFunctionClaimDeveloperRewards))
			if string(c) == string(uni.A0) || string(c) == string(uni.S0) {
				// unusual new owners: the caller itself (the current owner where it owns k), the
				// contract itself, the 32-byte zero address
				for _, nw := range [][]byte{c, k, make([]byte, 32)} {
					acts = append(acts, uni.Call(c, k, vmcommon.BuiltInFunctionChangeOwnerAddress, nw))
				}
			}
			if vmcommon.IsSmartContractAddress(c) {
				// a contract reaches a remote contract through an asynchronous call
				as := uni.Call(c, k, vmcommon.BuiltInFunctionClaimDeveloperRewards)
				as.CallType = vmcommon.AsynchronousCall
				ao := uni.Call(c, k, vmcommon.BuiltInFunctionChangeOwnerAddress, uni.B0)
				ao.CallType = vmcommon.AsynchronousCall
				acts = append(acts, as, ao)
			}
		}
		for _, target := range [][]byte{uni.B0, uni.C1} {
			if o.shards == 1 && string(target) == string(uni.C1) {
				continue
			}
			acts = append(acts, uni.Call(c, target, vmcommon.BuiltInFunctionSetUserName, []byte("nm")))
			if string(c) == string(uni.D0) {
				acts = append(acts, uni.Call(c, target, vmcommon.BuiltInFunctionSetUserName, []byte{}),
					uni.Call(c, target, vmcommon.BuiltInFunctionSetUserName, bytes.Repeat([]byte("n"), 1000)),
					uni.Call(c, target, vmcommon.BuiltInFunctionSetUserName, []byte("nm"), []byte("extra")))
			}
		}
		acts = append(acts, uni.Call(c, c, vmcommon.BuiltInFunctionSaveKeyValue, []byte("k"), []byte("v")))
		acts = append(acts, uni.Call(c, uni.B0, vmcommon.BuiltInFunctionSaveKeyValue, []byte("k"), []byte("w")))
		acts = append(acts, uni.Call(c, c, vmcommon.BuiltInFunctionSaveKeyValue, []byte(spec.TokPrefix+tF), []byte{8, 1}))
		// protocol keys in the last pair of calls with two and three pairs
		acts = append(acts, uni.Call(c, c, vmcommon.BuiltInFunctionSaveKeyValue, []byte("j"), []byte("1"), []byte(spec.TokPrefix+tF), []byte{0xff, 0xff}))
		acts = append(acts, uni.Call(c, c, vmcommon.BuiltInFunctionSaveKeyValue, []byte("j"), []byte("1"), []byte("i"), []byte("2"), []byte(spec.RolePrefix+tS), []byte{0xff}))
		acts = append(acts, uni.Call(c, c, vmcommon.BuiltInFunctionSaveKeyValue, []byte("j"), []byte("1"), []byte(spec.NoncePrefix+tS), []byte{}))
	}
	return acts
}

// impostorMenu: system-only functions and destination-side layouts issued by ordinary accounts.
func impostorMenu(w *world.World, o menuOpts) []world.Action {
	var acts []world.Action
	callers := append(users(o), uni.S0)
	targets := users(o)
	payload := func() []byte {
		if a := w.Get(uni.A0); a != nil {
			if raw, ok := a.Storage[spec.TokPrefix+tS1]; ok {
				return raw
			}
		}
		return []byte{0x12, 0x02, 0x00, 0x01}
	}()
	for _, c := range callers {
		for _, t := range targets {
			for _, fn := range []string{vmcommon.BuiltInFunctionESDTFreeze, vmcommon.BuiltInFunctionESDTUnFreeze, vmcommon.BuiltInFunctionESDTWipe} {
				acts = append(acts, uni.Call(c, t, fn, uni.F))
			}
			acts = append(acts, uni.Call(c, t, vmcommon.BuiltInFunctionSetESDTRole, uni.F, []byte(vmcommon.ESDTRoleLocalMint)))
			acts = append(acts, uni.Call(c, t, vmcommon.BuiltInFunctionSetESDTRole, uni.S, []byte(vmcommon.ESDTRoleNFTCreate)))
			acts = append(acts, uni.Call(c, t, vmcommon.BuiltInFunctionUnSetESDTRole, uni.S, []byte(vmcommon.ESDTRoleNFTCreate)))
			acts = append(acts, uni.Call(c, t, vmcommon.BuiltInFunctionESDTNFTCreateRoleTransfer, uni.S, c))
			acts = append(acts, uni.Call(c, t, vmcommon.BuiltInFunctionESDTNFTCreateRoleTransfer, uni.S, uni.Big(9)))
			if string(c) != string(t) {
				acts = append(acts, uni.Call(c, t, vmcommon.BuiltInFunctionESDTNFTTransfer, uni.S, uni.Big(1), uni.Big(1), payload))
				acts = append(acts, uni.Call(c, t, vmcommon.BuiltInFunctionMultiESDTNFTTransfer, uni.Big(1), uni.F, uni.Big(0), uni.Big(1)))
				acts = append(acts, uni.Call(c, t, vmcommon.BuiltInFunctionMultiESDTNFTTransfer, uni.Big(1), uni.S, uni.Big(1), payload))
			}
		}
		for sh := 0; sh < o.shards; sh++ {
			a := uni.Call(c, uni.Sys, vmcommon.BuiltInFunctionESDTPause, uni.F)
			a.Shard = sh
			acts = append(acts, a)
			b := uni.Call(c, uni.Sys, vmcommon.BuiltInFunctionESDTUnPause, uni.F)
			b.Shard = sh
			acts = append(acts, b)
		}
	}
	return acts
}


// forgedArrivals: calls an ordinary account signs itself in the argument layout of the *arrival* of
// a cross-shard transfer (count / token / nonce / quantity-or-payload, recipient = another account
// of the caller's own shard, both accounts present). Only a protocol message (sender absent) may be
// executed as an arrival; such a call has to be refused, whatever its call type - otherwise
// tokens and metadata appear from nothing.
func forgedArrivals(w *world.World) []world.Action {
	payload, _ := (&esdt.ESDigitalToken{Type: uint32(vmcommon.NonFungible), Value: big.NewInt(5),
		TokenMetaData: &esdt.MetaData{Nonce: 1, Name: []byte("forged"), Creator: uni.A0, Royalties: 20000, Hash: []byte("h"), Attributes: []byte("forged")}}).Marshal()
	var acts []world.Action
	for _, ct := range []vmcommon.CallType{vmcommon.DirectCall, vmcommon.AsynchronousCall} {
		for _, pair := range [][2][]byte{{uni.A0, uni.B0}, {uni.S0, uni.B0}} {
			from, to := pair[0], pair[1]
			for _, a := range []world.Action{
				uni.Call(from, to, vmcommon.BuiltInFunctionESDTNFTTransfer, uni.S, uni.Big(1), uni.Big(5), payload),
				uni.Call(from, to, vmcommon.BuiltInFunctionMultiESDTNFTTransfer, uni.Big(1), uni.F, []byte{}, uni.Big(100)),
				uni.Call(from, to, vmcommon.BuiltInFunctionMultiESDTNFTTransfer, uni.Big(1), uni.S, uni.Big(1), payload),
			} {
				a.CallType = ct
				acts = append(acts, a)
			}
		}
	}
	return acts
}
