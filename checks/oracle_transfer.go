package checks

import (
	"bytes"
	"fmt"
	"math/big"

	vmcommon "github.com/ElrondNetwork/elrond-vm-common"

	"verif/engine/explore"
	"verif/engine/spec"
	"verif/engine/uni"
	"verif/engine/world"
)

// itemClass is a short structural class of the listed items (used in signatures).
func itemClass(t *spec.Transfer) string {
	fung, nft := 0, 0
	for _, it := range t.Items {
		if it.Nonce == 0 {
			fung++
		} else {
			nft++
		}
	}
	switch {
	case nft == 0:
		return fmt.Sprintf("k%d-fungible", len(t.Items))
	case fung == 0:
		return fmt.Sprintf("k%d-nft", len(t.Items))
	}
	return fmt.Sprintf("k%d-mixed", len(t.Items))
}

func sideOf(leg *world.Leg) string {
	if leg.Side == "dest" && leg.Input != nil && leg.Input.ReturnCallAfterError {
		return "refund"
	}
	return leg.Side
}

// conservationOracle decides C01: exactness per successful step, acceptance of protocol messages,
// and the per-key conservation sum.
type conservationOracle struct {
	property string
}

func (o *conservationOracle) State(c *explore.Ctx, w *world.World) {}

func (o *conservationOracle) Leg(c *explore.Ctx, leg *world.Leg) {
	p := o.property
	isTransfer := world.TransferFuncs[leg.Func]
	// (c) conservation of the per-key sum over accounts + undelivered messages, on every leg
	if leg.Pre != leg.Post {
		want := map[string]*big.Int{}
		if leg.OK() && !isTransfer {
			if d, known := spec.ExpectedDelta(leg); known {
				want = spec.SupplyDelta(d)
			} else {
				want = nil
			}
		}
		if want != nil && !leg.Duplicate {
			got := spec.Delta(spec.Supply(leg.Pre), spec.Supply(leg.Post))
			if !spec.EqualDelta(got, want) {
				cls := "other"
				if t, ok := spec.LegTransfer(leg); ok {
					cls = itemClass(t)
				}
				c.Report(p, "sigma", fmt.Sprintf("%s:%s:%s", leg.Func, sideOf(leg), cls),
					fmt.Sprintf("per-key sum of balances + undelivered transfers changed by %s (expected %s) in %s leg of %s",
						fmtSup(got), fmtSup(want), leg.Side, leg.Func))
			}
		}
	}
	if !isTransfer {
		return
	}
	t, parsed := spec.LegTransfer(leg)
	// (b) acceptance of protocol-emitted messages
	if leg.Side == "dest" && !leg.Duplicate && leg.Delivered != nil && parsed && !leg.OK() && leg.Panic == nil {
		if why := mustAccept(leg, t); why == "" {
			c.Class("delivery-refused-legitimately")
		} else {
			c.Report(p, "acceptance", fmt.Sprintf("%s:%s:%s", leg.Func, sideOf(leg), itemClass(t)),
				fmt.Sprintf("destination shard refused a protocol-emitted %s message although %s: err=%v data=%s", leg.Func, why, leg.Err, shortData(leg.Delivered.Data)))
		}
	}
	if leg.Side == "dest" && leg.Unparsable {
		c.Report(p, "acceptance", fmt.Sprintf("%s:unparsable", leg.Func), fmt.Sprintf("protocol-emitted message is rejected by the call-arguments parser: %s", shortData(leg.Delivered.Data)))
	}
	if !leg.OK() {
		return
	}
	if !parsed {
		c.Report(p, "exactness", fmt.Sprintf("%s:%s:unreadable", leg.Func, sideOf(leg)), "a transfer call the reference cannot read succeeded")
		return
	}
	if leg.Side == "dest" {
		c.Class("delivered:" + leg.Func + ":" + itemClass(t))
		if leg.Input.ReturnCallAfterError {
			c.Class("refund-delivered:" + leg.Func)
		}
	}
	// (a) exactness
	want, _ := spec.ExpectedDelta(leg)
	got := spec.Delta(spec.Balances(leg.Pre), spec.Balances(leg.Post))
	if !spec.EqualDelta(got, want) {
		c.Report(p, "exactness", fmt.Sprintf("%s:%s:%s", leg.Func, sideOf(leg), itemClass(t)),
			fmt.Sprintf("balance changes %s, expected %s", spec.FmtDelta(got, uni.Name), spec.FmtDelta(want, uni.Name)))
	}
	// sender side with a remote destination: exactly one message that carries the listed quantities
	if t.Sender && len(t.Dest) == 32 {
		destShard := leg.Pre.ShardOf(t.Dest)
		if destShard != leg.Shard && destShard != vmcommon.MetachainShardId {
			var carried map[string]*big.Int
			n := 0
			for _, m := range leg.Emitted {
				if bytes.Equal(m.To, t.Dest) {
					carried = spec.MsgCarried(m)
					n++
				}
			}
			listed := map[string]*big.Int{}
			for _, it := range t.Items {
				spec.AddTo(listed, it.Suffix(), it.Qty)
			}
			if n != 1 || !spec.EqualDelta(carried, listed) {
				c.Report(p, "message", fmt.Sprintf("%s:%s:%s", leg.Func, sideOf(leg), itemClass(t)),
					fmt.Sprintf("%d message(s) to the remote destination carrying %s, listed %s", n, fmtSup(carried), fmtSup(listed)))
			} else {
				c.Class("cross-shard-emitted:" + leg.Func + ":" + itemClass(t))
			}
		}
	}
}

func fmtSup(d map[string]*big.Int) string {
	m := map[string]*big.Int{}
	for k, v := range d {
		m[spec.BalKey(make([]byte, 32), k)] = v
	}
	return spec.FmtDelta(m, func([]byte) string { return "" })
}

func shortData(d []byte) string {
	if len(d) > 160 {
		return string(d[:160]) + "..."
	}
	return string(d)
}

// mustAccept returns a non-empty reason when the reference says the delivery had to succeed
// (C01 b): destination not frozen, token not paused, destination payable or exempt, no different
// NFT under the same key. An empty string means a refusal is legitimate.
func mustAccept(leg *world.Leg, t *spec.Transfer) string {
	w := leg.Pre
	in := leg.Input
	acc := w.Get(t.Dest)
	refund := in.ReturnCallAfterError
	if w.ShardOf(t.Dest) != leg.Shard {
		return ""
	}
	payable, isErr := w.PayAnswer(t.Dest)
	if (!payable || isErr) && !spec.Exempt(in, t.MinArgs) {
		return ""
	}
	for _, it := range t.Items {
		if it.Qty.Sign() <= 0 && it.Nonce == 0 {
			return ""
		}
		if !refund {
			if spec.Frozen(acc, it.Tok) && it.Nonce == 0 {
				return ""
			}
			if e := spec.Entry(acc, it.Suffix()); e != nil && len(e.Properties) == 2 && e.Properties[0]&1 != 0 {
				return ""
			}
			if spec.Paused(w, leg.Shard, it.Tok) || spec.Paused(w, leg.Shard, it.Suffix()) {
				return ""
			}
		}
		if it.Nonce > 0 {
			cur := spec.Entry(acc, it.Suffix())
			pay, err := spec.DecodeToken(it.Payload)
			if err != nil || pay.TokenMetaData == nil {
				return ""
			}
			if cur != nil && (cur.TokenMetaData == nil || !bytes.Equal(cur.TokenMetaData.Hash, pay.TokenMetaData.Hash)) {
				return ""
			}
		} else {
			cur := spec.Entry(acc, it.Suffix())
			if cur != nil && (cur.Type != 0 || cur.TokenMetaData != nil) {
				return ""
			}
		}
	}
	if refund {
		return "it is a return-after-error refund to a payable (or exempt) original sender"
	}
	return "the destination is not frozen, the token is not paused and the destination is payable or exempt"
}
