// vcheck runs one property check: vcheck <property> [quick|thorough]; vcheck replay <file>.
package main

import (
	"bytes"
	"fmt"
	"io"
	"os"
	"os/exec"
	"runtime/debug"
	"strings"
	"time"

	"verif/checks"
)

// crashToVerdict: the enumerating checks of C12, C14 and C20 call the library's pure functions
// directly; their statements say these functions never panic (are total). A panic that escapes one
// of the unguarded call sites and whose innermost non-runtime frame lies in the library is
// therefore a violation of the property, not a harness failure - it is reported as one (exit 1, with
// a replay file holding the stack) instead of killing the checker with an unreadable exit status.
// A panic raised by harness code, or in any other check, stays a harness failure (exit 2).
func crashToVerdict(property string, tier checks.Tier, start time.Time) {
	r := recover()
	if r == nil {
		return
	}
	stack := string(debug.Stack())
	if wp, ok := r.(*checks.WorkerPanic); ok {
		// the panic happened in a worker goroutine of an enumeration: classify by its stack
		r, stack = wp.Value, wp.Stack
	}
	inLibrary := false
	for _, line := range strings.Split(stack, "\n") {
		l := strings.TrimSpace(line)
		if strings.HasPrefix(l, "runtime.") || strings.HasPrefix(l, "runtime/") || strings.HasPrefix(l, "panic(") || strings.HasPrefix(l, "main.crashToVerdict") || strings.HasPrefix(l, "verif/checks.Parallel") || strings.HasPrefix(l, "goroutine ") || strings.HasPrefix(l, "/") || l == "" {
			continue
		}
		inLibrary = strings.HasPrefix(l, "github.com/ElrondNetwork/elrond-vm-common")
		break
	}
	total := map[string]bool{"C12": true, "C14": true, "C20": true}
	if !inLibrary || !total[property] {
		fmt.Printf("SELF-CHECK property=%s the checker crashed: %v\n%s\n", property, r, stack)
		os.Exit(2)
	}
	short := stack
	if len(short) > 1800 {
		short = short[:1800]
	}
	o := &checks.Outcome{Property: property, Tier: tier, Level: "exploration", Start: start,
		Coverage:    map[string]interface{}{"exhaustive": false, "evaluations": 0, "distinct_nontrivial": 0, "rule": "the enumeration was cut short by a panic inside the library (reported as the violation below)", "aborted_by_panic": true},
		Assumptions: []string{"a panic escaping the library's pure functions ends the enumeration; it is itself the violation"},
		Violations:  []checks.Viol{{Property: property, Clause: "panic", Sig: "library-panic", Detail: fmt.Sprintf("a library function panicked during the enumeration: %v\n%s", r, short), Kind: "case", Replay: map[string]interface{}{"panic": fmt.Sprint(r), "stack": stack}}}}
	os.Exit(checks.Finish(o))
}

func main() {
	debug.SetGCPercent(400)
	// soft limit: the collector works harder instead of letting the heap (5x live at GOGC 400) reach
	// what the machine has
	debug.SetMemoryLimit(28 << 30)
	if len(os.Args) < 2 {
		fmt.Fprintln(os.Stderr, "usage: vcheck <property> [quick|thorough] | vcheck replay <file>")
		os.Exit(2)
	}
	if os.Args[1] == "replay" {
		if len(os.Args) < 3 {
			fmt.Fprintln(os.Stderr, "usage: vcheck replay <file>")
			os.Exit(2)
		}
		os.Exit(checks.Replay(os.Args[2]))
	}
	tier := checks.Tier("quick")
	if len(os.Args) > 2 {
		tier = checks.Tier(os.Args[2])
	} else if t := os.Getenv("VERIF_TIER"); t != "" {
		tier = checks.Tier(t)
	}
	f, ok := checks.Registry[os.Args[1]]
	if !ok {
		fmt.Fprintf(os.Stderr, "unknown property %s\n", os.Args[1])
		os.Exit(2)
	}
	start := time.Now()
	// C12, C14 and C20 call the library's pure functions from many goroutines at once. A fatal
	// runtime fault there (memory corrupted by a function that is no longer re-entrant) cannot be
	// recovered inside the process: these checks run in a child process, and a child that dies with a
	// fatal fault inside the library is reported as a violation of "never panics / total"
	if os.Getenv("VERIF_CHILD") == "" && (os.Args[1] == "C12" || os.Args[1] == "C14" || os.Args[1] == "C20") {
		cmd := exec.Command(os.Args[0], os.Args[1:]...)
		cmd.Env = append(os.Environ(), "VERIF_CHILD=1")
		var errBuf bytes.Buffer
		cmd.Stdout = os.Stdout
		cmd.Stderr = io.MultiWriter(&errBuf)
		err := cmd.Run()
		code := 0
		if ee, ok := err.(*exec.ExitError); ok {
			code = ee.ExitCode()
		} else if err != nil {
			fmt.Printf("SELF-CHECK property=%s cannot run the enumeration process: %v\n", os.Args[1], err)
			os.Exit(2)
		}
		es := errBuf.String()
		if code != 0 && code != 1 && strings.Contains(es, "fatal error:") && strings.Contains(es, "github.com/ElrondNetwork/elrond-vm-common") {
			short := es
			if len(short) > 1800 {
				short = short[:1800]
			}
			o := &checks.Outcome{Property: os.Args[1], Tier: tier, Level: "exploration", Start: start,
				Coverage:    map[string]interface{}{"exhaustive": false, "evaluations": 0, "distinct_nontrivial": 0, "rule": "the enumeration process died with a fatal runtime fault inside the library (reported as the violation below)", "aborted_by_panic": true},
				Assumptions: []string{"the enumeration calls the library's pure functions from 16 goroutines at once; a fatal fault there is itself the violation"},
				Violations:  []checks.Viol{{Property: os.Args[1], Clause: "panic", Sig: "library-fatal-fault", Detail: "the enumeration process died with a fatal runtime fault while library functions were running concurrently (a function that keeps state between calls is no longer total under concurrent use):\n" + short, Kind: "case", Replay: map[string]interface{}{"stderr": es}}}}
			os.Exit(checks.Finish(o))
		}
		_, _ = os.Stderr.WriteString(es)
		os.Exit(code)
	}
	rc := func() int {
		defer crashToVerdict(os.Args[1], tier, start)
		return f(tier)
	}()
	os.Exit(rc)
}
