// vcheck runs one property check: vcheck <property> [quick|thorough]; vcheck replay <file>.
package main

import (
	"fmt"
	"os"
	"runtime/debug"

	"verif/checks"
)

func main() {
	debug.SetGCPercent(400)
	// soft limit: the collector works harder instead of letting the heap (5x live at GOGC 400) reach
	// what the machine has
	debug.SetMemoryLimit(28 << 30)
	if len(os.Args) < 2 {
		fmt.Fprintln(os.Stderr, "usage: vcheck <property> [quick|thorough] | vcheck replay <file>")
		os.Exit(2)
	}
	if os.Args[1] == "replay" {
		if len(os.Args) < 3 {
			fmt.Fprintln(os.Stderr, "usage: vcheck replay <file>")
			os.Exit(2)
		}
		os.Exit(checks.Replay(os.Args[2]))
	}
	tier := checks.Tier("quick")
	if len(os.Args) > 2 {
		tier = checks.Tier(os.Args[2])
	} else if t := os.Getenv("VERIF_TIER"); t != "" {
		tier = checks.Tier(t)
	}
	f, ok := checks.Registry[os.Args[1]]
	if !ok {
		fmt.Fprintf(os.Stderr, "unknown property %s\n", os.Args[1])
		os.Exit(2)
	}
	os.Exit(f(tier))
}
