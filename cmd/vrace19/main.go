// vrace19 is the free-running race pass of C19: the same thread bodies as engine E4, unmodified
// sync, built with -race, on OS threads, for a fixed number of iterations (no wall-clock oracle).
// It is a dynamic detector, not model checking; its result is reported separately in the evidence.
package main

import (
	"fmt"
	"os"
	"strconv"
	"sync"
	"sync/atomic"

	"verif/e4/bodies"
)

func runFree(bs []func()) {
	var wg sync.WaitGroup
	start := make(chan struct{})
	for _, b := range bs {
		wg.Add(1)
		go func(b func()) {
			defer wg.Done()
			<-start
			b()
		}(b)
	}
	close(start)
	wg.Wait()
}

func main() {
	iters := 2000
	if len(os.Args) > 1 {
		iters, _ = strconv.Atoi(os.Args[1])
	}
	var clock int64
	bodies.Tick = func() int64 { return atomic.AddInt64(&clock, 1) }
	nonLin := 0
	total := 0
	// H1: container programs (3 threads, mixed operations)
	alpha := bodies.MapAlphabet(true)
	for it := 0; it < iters; it++ {
		prog := [][]bodies.MapOp{
			{alpha[(it)%len(alpha)], alpha[(it/3)%len(alpha)]},
			{alpha[(it/7)%len(alpha)], alpha[(it+1)%len(alpha)]},
			{alpha[(it/5+2)%len(alpha)], alpha[(it/11+4)%len(alpha)]},
		}
		c := bodies.NewContainer()
		h := bodies.NewHistory(3)
		runFree(bodies.MapBodies(c, prog, h))
		if p, _ := bodies.Linearizable(h, "k2=v0", bodies.MapStep); !p {
			nonLin++
			fmt.Fprintf(os.Stderr, "NON-LINEARIZABLE free-running history: %s\n", h.Canon())
		}
		total++
	}
	// H2: atomics
	for _, typ := range []string{"Counter", "Flag", "Int64", "Uint32", "Uint64", "String"} {
		al := bodies.AtomAlphabets[typ]
		for it := 0; it < iters/2; it++ {
			prog := [][]string{{al[it%len(al)], al[(it/2)%len(al)]}, {al[(it/3)%len(al)], al[(it+1)%len(al)]}, {al[(it/5)%len(al)]}}
			a := &bodies.Atoms{}
			h := bodies.NewHistory(3)
			runFree(bodies.AtomBodies(a, typ, prog, h))
			if p, _ := bodies.Linearizable(h, bodies.AtomInit(typ), bodies.AtomStep(typ)); !p {
				nonLin++
				fmt.Fprintf(os.Stderr, "NON-LINEARIZABLE free-running history on %s: %s\n", typ, h.Canon())
			}
			total++
		}
	}
	// H3/H4: executions concurrent with each other, a schedule change and an epoch notification
	mixed := 0
	refs := map[string]uint64{}
	ref := func(kind string, base uint64) uint64 {
		k := fmt.Sprint(kind, base)
		if _, ok := refs[k]; !ok {
			refs[k] = bodies.RefCharge(kind, base)
		}
		return refs[k]
	}
	for _, k := range bodies.ExecKinds {
		ref(k, 1000)
		ref(k, 5000)
	}
	for it := 0; it < iters; it++ {
		l := bodies.NewLite()
		kinds := bodies.ExecKinds
		k1, k2 := kinds[it%len(kinds)], kinds[(it/len(kinds))%len(kinds)]
		var r1, r2 bodies.ExecResult
		runFree([]func(){
			func() { r1 = bodies.Exec(l, k1) },
			func() { r2 = bodies.Exec(l, k2) },
			func() { l.Factory.GasScheduleChange(bodies.Schedule(5000)) },
			func() {
				for _, s := range l.Notifier.Subs {
					s.EpochConfirmed(uint32(it%3), 0)
				}
			},
		})
		for _, r := range []bodies.ExecResult{r1, r2} {
			if r.OK && r.Consumed != ref(r.Kind, 1000) && r.Consumed != ref(r.Kind, 5000) {
				mixed++
				fmt.Fprintf(os.Stderr, "MIXED-CHARGE free-running: %s consumed %d\n", r.Kind, r.Consumed)
			}
		}
		total++
	}
	fmt.Printf("{\"iterations\": %d, \"non_linearizable\": %d, \"mixed_charge\": %d}\n", total, nonLin, mixed)
}
