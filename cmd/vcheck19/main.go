//go:build e4

// vcheck19 decides C19 with engine E4: all schedules within a preemption bound of small
// multi-threaded harnesses over the real container, atomics and built-in functions, whose sync and
// sync/atomic imports are rewritten (go build -overlay) to cooperative shims.
package main

import (
	"encoding/json"
	"fmt"
	"hash/fnv"
	"os"
	"os/exec"
	"sort"
	"strconv"
	"strings"
	"time"

	"github.com/ElrondNetwork/elrond-vm-common/vsched"

	"verif/checks"
	"verif/e4/bodies"
)

const P = "C19"

type harness struct {
	name  string
	bound int
	// build returns fresh thread bodies and a function that checks the finished execution
	build func() (bodies []func(), check func(r *vsched.Result) (class string, viol *violation))
}

type violation struct {
	clause, sig, detail string
}

type replay struct {
	Harness string `json:"harness"`
	Choices []int  `json:"choices"`
}

type stats struct {
	executions int64
	points     int64
	histories  map[string]bool
	outcomes   map[string]int64
	maxBound   int
	capped     bool
	diverged   int64
}

var viols []checks.Viol
var violSeen = map[string]bool{}

func report(h string, v *violation, choices []int) {
	k := v.clause + "/" + v.sig
	if violSeen[k] {
		return
	}
	violSeen[k] = true
	viols = append(viols, checks.Viol{Property: P, Clause: v.clause, Sig: v.sig, Detail: v.detail, Kind: "schedule", Replay: replay{Harness: h, Choices: append([]int{}, choices...)}})
}

func explore(h harness, st *stats, maxExec int64) {
	ex := &vsched.Explorer{Bound: h.bound, MaxExec: maxExec}
	ex.Run = func(choose func(i int, p *vsched.PointInfo) int) (*vsched.Result, bool) {
		bs, check := h.build()
		r := vsched.Run(bs, choose)
		st.executions++
		st.points += int64(len(r.Points))
		if r.Diverged {
			st.diverged++
			return r, true
		}
		if r.Deadlock {
			report(h.name, &violation{"deadlock", harnessFamily(h.name), fmt.Sprintf("harness %s: no enabled thread while some thread is unfinished: %v", h.name, r.Blocked)}, r.Choices)
			st.outcomes["deadlock"]++
			return r, true
		}
		if len(r.Panics) > 0 {
			report(h.name, &violation{"panic", harnessFamily(h.name), fmt.Sprintf("harness %s: %s", h.name, firstLines(r.Panics[0], 6))}, r.Choices)
			st.outcomes["panic"]++
			return r, true
		}
		class, v := check(r)
		st.outcomes[class]++
		if v != nil {
			report(h.name, v, r.Choices)
		}
		return r, true
	}
	ex.Explore(nil)
	if ex.Capped {
		st.capped = true
	}
}

func harnessFamily(name string) string {
	if i := strings.Index(name, ":"); i >= 0 {
		return name[:i]
	}
	return name
}

func firstLines(s string, n int) string {
	l := strings.Split(s, "\n")
	if len(l) > n {
		l = l[:n]
	}
	return strings.Join(l, " | ")
}

// ---------------------------------------------------------------------------------------------

func progName(prog [][]bodies.MapOp) string {
	var ts []string
	for _, t := range prog {
		var os []string
		for _, o := range t {
			os = append(os, o.String())
		}
		ts = append(ts, strings.Join(os, ","))
	}
	return strings.Join(ts, " || ")
}

// mapPrograms: every multiset of per-thread op sequences (threads are symmetric).
func mapPrograms(alpha []bodies.MapOp, threads, opsPer int) [][][]bodies.MapOp {
	var seqs [][]bodies.MapOp
	var gen func(cur []bodies.MapOp)
	gen = func(cur []bodies.MapOp) {
		if len(cur) == opsPer {
			seqs = append(seqs, cur)
			return
		}
		for _, a := range alpha {
			gen(append(append([]bodies.MapOp{}, cur...), a))
		}
	}
	gen(nil)
	var out [][][]bodies.MapOp
	var pick func(start int, cur [][]bodies.MapOp)
	pick = func(start int, cur [][]bodies.MapOp) {
		if len(cur) == threads {
			out = append(out, cur)
			return
		}
		for i := start; i < len(seqs); i++ {
			pick(i, append(append([][]bodies.MapOp{}, cur...), seqs[i]))
		}
	}
	pick(0, nil)
	return out
}

func isReadOnly(seq []bodies.MapOp) bool {
	for _, o := range seq {
		if o.Kind == "Add" || o.Kind == "Replace" || o.Kind == "Remove" {
			return false
		}
	}
	return true
}

var linCache = map[string][2]bool{}

func mapHarness(prog [][]bodies.MapOp, bound int) harness {
	return mapHarnessFrom(prog, bound, false)
}

// mapHarnessFrom: empty = the container starts with nothing in it (so that a Remove drains it and
// "became empty" shortcuts are exercised), otherwise with {k2: v0}.
func mapHarnessFrom(prog [][]bodies.MapOp, bound int, empty bool) harness {
	name := "H1:" + progName(prog)
	init := "k2=v0"
	if empty {
		name = "H1:empty:" + progName(prog)
		init = ""
	}
	return harness{name: name, bound: bound, build: func() ([]func(), func(*vsched.Result) (string, *violation)) {
		c := bodies.NewContainer()
		if empty {
			c = bodies.NewEmptyContainer()
		}
		h := bodies.NewHistory(len(prog))
		return bodies.MapBodies(c, prog, h), func(r *vsched.Result) (string, *violation) {
			canon := init + "|" + h.Canon()
			res, ok := linCache[canon]
			if !ok {
				p, b := bodies.Linearizable(h, init, bodies.MapStep)
				res = [2]bool{p, b}
				linCache[canon] = res
			}
			curHistories[canon] = true
			if res[0] != res[1] {
				fmt.Printf("SELF-CHECK property=%s porcupine (%v) and the brute-force checker (%v) disagree on %s\n", P, res[0], res[1], canon)
				os.Exit(2)
			}
			if !res[0] {
				return "non-linearizable", &violation{"linearizability", "container:" + opKinds(prog), fmt.Sprintf("program [%s]: the recorded history is not linearizable w.r.t. the sequential map: %s", progName(prog), canon)}
			}
			return "lin:" + outcomesOf(h), nil
		}
	}}
}

func opKinds(prog [][]bodies.MapOp) string {
	set := map[string]bool{}
	for _, t := range prog {
		for _, o := range t {
			set[o.Kind] = true
		}
	}
	var ks []string
	for k := range set {
		ks = append(ks, k)
	}
	sort.Strings(ks)
	return strings.Join(ks, "+")
}

func outcomesOf(h *bodies.History) string {
	var parts []string
	for _, r := range h.All() {
		parts = append(parts, fmt.Sprintf("T%d:%s", r.Thread, r.Out))
	}
	sort.Strings(parts)
	return strings.Join(parts, " ")
}

var curHistories = map[string]bool{}

func atomHarness(typ string, prog [][]string, bound int) harness {
	var ts []string
	for _, t := range prog {
		ts = append(ts, strings.Join(t, ","))
	}
	name := "H2:" + typ + ":" + strings.Join(ts, " || ")
	return harness{name: name, bound: bound, build: func() ([]func(), func(*vsched.Result) (string, *violation)) {
		a := &bodies.Atoms{}
		h := bodies.NewHistory(len(prog))
		return bodies.AtomBodies(a, typ, prog, h), func(r *vsched.Result) (string, *violation) {
			canon := typ + "|" + h.Canon()
			res, ok := linCache[canon]
			if !ok {
				p, b := bodies.Linearizable(h, bodies.AtomInit(typ), bodies.AtomStep(typ))
				res = [2]bool{p, b}
				linCache[canon] = res
			}
			curHistories[canon] = true
			if res[0] != res[1] {
				fmt.Printf("SELF-CHECK property=%s porcupine and the brute-force checker disagree on %s\n", P, canon)
				os.Exit(2)
			}
			if !res[0] {
				return "non-linearizable", &violation{"lost-update", "atomic:" + typ, fmt.Sprintf("atomic %s, program [%s]: results not explainable by any sequential order (an update was lost): %s", typ, strings.Join(ts, " || "), h.Canon())}
			}
			return "lin:" + outcomesOf(h), nil
		}
	}}
}

func atomPrograms(alpha []string, threads, opsPer int) [][][]string {
	var seqs [][]string
	var gen func(cur []string)
	gen = func(cur []string) {
		if len(cur) == opsPer {
			seqs = append(seqs, cur)
			return
		}
		for _, a := range alpha {
			gen(append(append([]string{}, cur...), a))
		}
	}
	gen(nil)
	var out [][][]string
	var pick func(start int, cur [][]string)
	pick = func(start int, cur [][]string) {
		if len(cur) == threads {
			out = append(out, cur)
			return
		}
		for i := start; i < len(seqs); i++ {
			pick(i, append(append([][]string{}, cur...), seqs[i]))
		}
	}
	pick(0, nil)
	return out
}

// pricingHarness (H3): thread A executes a priced function, thread B changes the schedule from
// S1 = Schedule(1000) to S2 = Schedule(5000), optional thread C confirms an epoch or executes too.
func pricingHarness(kind string, third string, bound int) harness {
	name := "H3:" + kind
	if third != "" {
		name += "+" + third
	}
	return harness{name: name, bound: bound, build: func() ([]func(), func(*vsched.Result) (string, *violation)) {
		l := bodies.NewLite()
		var resA, resC bodies.ExecResult
		bs := []func(){
			func() { resA = bodies.Exec(l, kind) },
			func() { l.Factory.GasScheduleChange(bodies.Schedule(5000)) },
		}
		switch third {
		case "epoch":
			bs = append(bs, func() {
				for _, s := range l.Notifier.Subs {
					s.EpochConfirmed(2, 0)
				}
			})
		case "exec":
			bs = append(bs, func() { resC = bodies.Exec(l, "ESDTNFTTransfer") })
		case "direct":
			// the change reaches the function objects directly, in a struct its owner overwrites
			// right afterwards: the execution is charged by S1 or by the delivered S2, never by
			// what the struct holds later
			bs[1] = func() { bodies.DeliverDirectly(l, 5000) }
		}
		return bs, func(r *vsched.Result) (string, *violation) {
			check := func(res bodies.ExecResult) (string, *violation) {
				if !res.OK {
					return "", &violation{"execution", "exec-failed:" + res.Kind, fmt.Sprintf("%s failed while running concurrently with a schedule change: %s", res.Kind, res.Err)}
				}
				c1, c2 := refCharge(res.Kind, 1000), refCharge(res.Kind, 5000)
				switch res.Consumed {
				case c1:
					return "charged-by-S1", nil
				case c2:
					return "charged-by-S2", nil
				}
				return "", &violation{"mixed-charge", "pricing:" + res.Kind, fmt.Sprintf("%s overlapping a gas-schedule change consumed %d gas: neither the charge under the old schedule (%d) nor under the new one (%d) - base cost and per-byte price come from different schedules", res.Kind, res.Consumed, c1, c2)}
			}
			cls, v := check(resA)
			if v != nil {
				return "violation", v
			}
			if third == "exec" {
				c2, v2 := check(resC)
				if v2 != nil {
					return "violation", v2
				}
				cls += "+" + c2
			}
			return cls, nil
		}
	}}
}

// tightHarness (H3t): as H3, with GasProvided strictly between what the execution costs under the
// cheap and under the expensive schedule. Charged wholly by one schedule it either succeeds exactly
// as it does alone under the cheap one, or is refused exactly as it is alone under the expensive
// one; an execution admitted under one schedule and charged under the other is neither.
func tightHarness(kind string, up bool, bound int) harness {
	name := "H3t:" + kind
	from, to := uint64(1000), uint64(5000)
	if !up {
		name += ":down"
		from, to = to, from
	}
	return harness{name: name, bound: bound, build: func() ([]func(), func(*vsched.Result) (string, *violation)) {
		lo, hi := refCharge(kind, 1000), refCharge(kind, 5000)
		gas := lo + (hi-lo)/2
		refLo, refHi := refOutcome(kind, 1000, gas), refOutcome(kind, 5000, gas)
		l := bodies.NewLiteWith(from)
		var res bodies.ExecResult
		bs := []func(){
			func() { res = bodies.ExecGas(l, kind, "S", gas) },
			func() { l.Factory.GasScheduleChange(bodies.Schedule(to)) },
		}
		return bs, func(r *vsched.Result) (string, *violation) {
			if !refLo.OK || refHi.OK {
				return "violation", &violation{"harness", "tight-reference:" + kind, fmt.Sprintf("reference outcomes with %d gas: under the cheap schedule ok=%v (%s), under the expensive one ok=%v", gas, refLo.OK, refLo.Err, refHi.OK)}
			}
			switch {
			case res.Same(refLo):
				return "tight:charged-by-cheap", nil
			case res.Same(refHi):
				return "tight:refused-by-expensive", nil
			}
			return "violation", &violation{"mixed-charge", "tight:" + kind, fmt.Sprintf("%s with %d gas (between its charge %d under the cheap and %d under the expensive schedule) overlapping the schedule change ended ok=%v err=%q gasRemaining=%d forwarded=%d: alone it ends ok gasRemaining=%d forwarded=%d under the cheap schedule and is refused with %q under the expensive one",
				kind, gas, lo, hi, res.OK, res.Err, res.Remaining, res.Forwarded, refLo.Remaining, refLo.Forwarded, refHi.Err)}
		}
	}}
}

// flatHarness (H3f): the schedule changes from a flat one (every price 1000) to one in which the
// function prices and one per-byte price moved while the other per-byte prices stayed: the
// execution must be charged wholly by the old or wholly by the new schedule, each measured on a
// container built directly under it.
func flatHarness(kind, dev string, bound int) harness {
	name := "H3f:" + kind + ":" + dev
	return harness{name: name, bound: bound, build: func() ([]func(), func(*vsched.Result) (string, *violation)) {
		old, nw := bodies.FlatSchedule(1000, "", 0), bodies.FlatSchedule(1000, dev, 4000)
		l := bodies.NewLiteOn(old)
		var res bodies.ExecResult
		bs := []func(){
			func() { res = bodies.Exec(l, kind) },
			func() { l.Factory.GasScheduleChange(nw) },
		}
		return bs, func(r *vsched.Result) (string, *violation) {
			k1, k2 := "flat/"+kind, "flat/"+kind+"/"+dev
			if _, ok := refOutCache[k1]; !ok {
				refOutCache[k1] = bodies.Exec(bodies.NewLiteOn(old), kind)
			}
			if _, ok := refOutCache[k2]; !ok {
				refOutCache[k2] = bodies.Exec(bodies.NewLiteOn(nw), kind)
			}
			r1, r2 := refOutCache[k1], refOutCache[k2]
			// after the run the change has been delivered completely: a further execution must be
			// charged wholly by the new schedule
			after := bodies.Exec(l, kind)
			if !after.Same(r2) {
				return "violation", &violation{"mixed-charge", "after-change:" + kind, fmt.Sprintf("%s executed after a completed schedule change (flat 1000 -> function prices and %s 5000) consumed %d gas; a container built under the new schedule consumes %d, under the old one %d", kind, dev, after.Consumed, r2.Consumed, r1.Consumed)}
			}
			switch {
			case res.Same(r1):
				return "flat:charged-by-old", nil
			case res.Same(r2):
				return "flat:charged-by-new", nil
			}
			return "violation", &violation{"mixed-charge", "flat:" + kind, fmt.Sprintf("%s overlapping the change flat 1000 -> (function prices and %s 5000) consumed %d gas: neither %d (old) nor %d (new)", kind, dev, res.Consumed, r1.Consumed, r2.Consumed)}
		}
	}}
}

var refOutCache = map[string]bodies.ExecResult{}

func refOutcome(kind string, base, gas uint64) bodies.ExecResult {
	k := fmt.Sprintf("%s/%d/%d", kind, base, gas)
	if v, ok := refOutCache[k]; ok {
		return v
	}
	v := bodies.RefOutcome(kind, base, gas)
	refOutCache[k] = v
	return v
}

var refCache = map[string]uint64{}

// refCharge measures (once) what kind consumes when run alone under Schedule(base); for the kinds
// with a closed form it must also agree with it (self-check of the harness).
func refCharge(kind string, base uint64) uint64 {
	k := fmt.Sprintf("%s/%d", kind, base)
	if v, ok := refCache[k]; ok {
		return v
	}
	v := bodies.RefCharge(kind, base)
	refCache[k] = v
	return v
}

// isolationHarness (H5): two executions on the same function objects naming different tokens of
// the same length - one the sender holds with all roles ("S"), one it does not ("T"). Each must
// observe exactly what it observes when run alone: the first succeeds, the second is refused.
func isolationHarness(kindA, kindB string, withChange bool, bound int) harness {
	name := "H5:" + kindA + "(S)||" + kindB + "(T)"
	if withChange {
		name += "||change"
	}
	return harness{name: name, bound: bound, build: func() ([]func(), func(*vsched.Result) (string, *violation)) {
		l := bodies.NewLite()
		var ra, rb bodies.ExecResult
		bs := []func(){
			func() { ra = bodies.ExecTok(l, kindA, "S") },
			func() { rb = bodies.ExecTok(l, kindB, "T") },
		}
		if withChange {
			bs = append(bs, func() { l.Factory.GasScheduleChange(bodies.Schedule(5000)) })
		}
		return bs, func(r *vsched.Result) (string, *violation) {
			if !ra.OK {
				return "violation", &violation{"isolation", "exec-failed:" + kindA, fmt.Sprintf("%s on the held token S failed while %s on token T ran concurrently: %s", kindA, kindB, ra.Err)}
			}
			if rb.OK {
				return "violation", &violation{"isolation", "foreign-token-accepted:" + kindB, fmt.Sprintf("%s on token T, for which the sender holds nothing and no role, succeeded while %s on token S ran concurrently (alone it is refused)", kindB, kindA)}
			}
			c1, c2 := refCharge(kindA, 1000), refCharge(kindA, 5000)
			if ra.Consumed != c1 && ra.Consumed != c2 {
				return "violation", &violation{"mixed-charge", "pricing:" + kindA, fmt.Sprintf("%s consumed %d, neither %d nor %d", kindA, ra.Consumed, c1, c2)}
			}
			return "isolated:" + rb.Err, nil
		}
	}}
}

// sizedHarness (H6): two executions of the same kind on the same function object, with arguments of
// different sizes / quantities, each on its own accounts: whatever the schedule, each must give
// exactly what it gives alone (gas, effect on its account, emitted data). A scratch value kept on
// the function object between two steps of one execution shows here.
var sizedRef = map[string][2]bodies.ExecResult{}

func sizedHarness(kind string, bound int) harness {
	name := "H6:" + kind + "(usual)||" + kind + "(other sizes)"
	return harness{name: name, bound: bound, build: func() ([]func(), func(*vsched.Result) (string, *violation)) {
		ref, ok := sizedRef[kind]
		if !ok {
			// reference: each variant alone, on a fresh container (sequential; no scheduling points
			// are contended, the scheduler lets the single thread run)
			rl := bodies.NewLite()
			ref = [2]bodies.ExecResult{bodies.ExecSized(rl, kind, false), bodies.ExecSized(rl, kind, true)}
			sizedRef[kind] = ref
		}
		l := bodies.NewLite()
		var ra, rb bodies.ExecResult
		first := "" // which execution completed first (the threads run one at a time under the scheduler)
		bs := []func(){
			func() {
				ra = bodies.ExecSized(l, kind, false)
				if first == "" {
					first = "usual"
				}
			},
			func() {
				rb = bodies.ExecSized(l, kind, true)
				if first == "" {
					first = "other"
				}
			},
		}
		return bs, func(r *vsched.Result) (string, *violation) {
			for i, got := range []bodies.ExecResult{ra, rb} {
				want := ref[i]
				if got.OK != want.OK || got.Err != want.Err || got.Consumed != want.Consumed || got.Remaining != want.Remaining || got.Forwarded != want.Forwarded || got.Digest != want.Digest {
					return "violation", &violation{"isolation", "sized:" + kind, fmt.Sprintf("%s (variant %d) overlapping another %s with other argument sizes gives ok=%v err=%q consumed=%d left=%d forwarded=%d, alone it gives ok=%v err=%q consumed=%d left=%d forwarded=%d (effects equal: %v)",
						kind, i, kind, got.OK, got.Err, got.Consumed, got.Remaining, got.Forwarded, want.OK, want.Err, want.Consumed, want.Remaining, want.Forwarded, got.Digest == want.Digest)}
				}
			}
			if !ra.OK || !rb.OK {
				return "both-as-alone:refused:first=" + first, nil
			}
			return "both-as-alone:first=" + first, nil
		}
	}}
}

// ---------------------------------------------------------------------------------------------

func runReplay(path string) int {
	b, err := os.ReadFile(path)
	if err != nil {
		fmt.Println(err)
		return 2
	}
	var v struct {
		Clause string `json:"clause"`
		Sig    string `json:"signature"`
		Detail string `json:"detail"`
		Replay replay `json:"replay"`
	}
	if err := json.Unmarshal(b, &v); err != nil {
		fmt.Println(err)
		return 2
	}
	fmt.Printf("replaying %s %s/%s\n  harness %s\n  schedule %v\n", P, v.Clause, v.Sig, v.Replay.Harness, v.Replay.Choices)
	for _, h := range allHarnesses(checks.Tier("thorough")) {
		if h.name != v.Replay.Harness {
			continue
		}
		var outs [2]string
		for run := 0; run < 2; run++ {
			bs, check := h.build()
			r := vsched.Run(bs, func(i int, p *vsched.PointInfo) int {
				if i < len(v.Replay.Choices) {
					return v.Replay.Choices[i]
				}
				return 0
			})
			if r.Diverged {
				fmt.Println("HARNESS ERROR: the recorded schedule cannot be replayed (choice out of range)")
				return 2
			}
			switch {
			case r.Deadlock:
				outs[run] = fmt.Sprintf("deadlock %v", r.Blocked)
			case len(r.Panics) > 0:
				outs[run] = "panic " + firstLines(r.Panics[0], 3)
			default:
				cls, vv := check(r)
				outs[run] = cls
				if vv != nil {
					outs[run] = vv.clause + "/" + vv.sig + ": " + vv.detail
				}
			}
			if run == 0 {
				for i, p := range r.Points {
					fmt.Printf("    step %3d: thread %d runs (%s)%s\n", i, p.Enabled[p.Chosen], p.Kinds[p.Chosen], map[bool]string{true: "  <- preemption", false: ""}[p.RunningStillEnabled && p.Chosen != 0])
				}
			}
		}
		if outs[0] != outs[1] {
			fmt.Println("HARNESS ERROR: two replays of the same schedule observed different things")
			return 2
		}
		fmt.Println("  observed:", outs[0])
		if strings.HasPrefix(outs[0], v.Clause+"/") || strings.HasPrefix(outs[0], v.Clause) {
			fmt.Printf("REPRODUCED property=%s %s/%s (two identical runs)\n", P, v.Clause, v.Sig)
			return 1
		}
		fmt.Printf("NOT REPRODUCED property=%s %s/%s\n", P, v.Clause, v.Sig)
		return 0
	}
	fmt.Println("harness not found:", v.Replay.Harness)
	return 2
}

func allHarnesses(tier checks.Tier) []harness {
	var hs []harness
	thorough := tier.Thorough()
	bound := 2
	if thorough {
		bound = 3
	}
	// H1
	alpha := bodies.MapAlphabet(thorough)
	for _, prog := range mapPrograms(alpha, 2, 2) {
		if isReadOnly(prog[0]) && isReadOnly(prog[1]) {
			continue
		}
		hs = append(hs, mapHarness(prog, bound))
	}
	for _, prog := range mapPrograms(bodies.MapAlphabet(false), 3, 1) {
		hs = append(hs, mapHarness(prog, bound))
	}
	// the same from an initially empty container, for the programs that can drain and refill it
	drains := func(prog [][]bodies.MapOp) bool {
		rm, ins := false, false
		for _, t := range prog {
			for _, o := range t {
				rm = rm || o.Kind == "Remove"
				ins = ins || o.Kind == "Add" || o.Kind == "Replace"
			}
		}
		return rm && ins
	}
	for _, prog := range mapPrograms(bodies.MapAlphabet(false), 2, 2) {
		if drains(prog) {
			hs = append(hs, mapHarnessFrom(prog, bound, true))
		}
	}
	for _, prog := range mapPrograms(bodies.MapAlphabet(false), 3, 1) {
		if drains(prog) {
			hs = append(hs, mapHarnessFrom(prog, bound, true))
		}
	}
	if thorough {
		for _, prog := range mapPrograms(bodies.MapAlphabet(false), 2, 3) {
			if (isReadOnly(prog[0]) && isReadOnly(prog[1])) || len(hs)%3 != 0 {
				continue
			}
			hs = append(hs, mapHarness(prog, 2))
		}
	}
	// four threads, one operation each (preemption bound 1 quick / 2 thorough): mutators only plus
	// at most the observers, so that every program has something to collide on
	for _, prog := range mapPrograms(bodies.MapAlphabet(false), 4, 1) {
		ro := 0
		for _, t := range prog {
			if isReadOnly(t) {
				ro++
			}
		}
		if ro > 2 {
			continue
		}
		hs = append(hs, mapHarness(prog, bound-1))
	}
	// H2
	for _, typ := range []string{"Counter", "Flag"} {
		for _, prog := range atomPrograms(bodies.AtomAlphabets[typ], 4, 1) {
			hs = append(hs, atomHarness(typ, prog, bound-1))
		}
	}
	for _, typ := range []string{"Counter", "Flag", "Int64", "Uint32", "Uint64", "String"} {
		al := bodies.AtomAlphabets[typ]
		for _, prog := range atomPrograms(al, 2, 2) {
			hs = append(hs, atomHarness(typ, prog, bound))
		}
		if len(al) <= 5 || thorough {
			for _, prog := range atomPrograms(al, 3, 1) {
				hs = append(hs, atomHarness(typ, prog, bound))
			}
		}
	}
	// H3 / H4
	for _, k := range bodies.ExecKinds {
		hs = append(hs, pricingHarness(k, "", bound))
	}
	hs = append(hs, pricingHarness("ESDTNFTTransfer", "epoch", 2), pricingHarness("MultiESDTNFTTransfer", "exec", 2))
	if thorough {
		hs = append(hs, pricingHarness("ESDTNFTCreate", "exec", 2), pricingHarness("SaveKeyValue", "epoch", 2))
	}
	for _, k := range []string{"ESDTNFTUpdateAttributes", "ESDTNFTAddURI", "ESDTNFTCreate", "SaveKeyValue", "ESDTNFTTransfer", "MultiESDTNFTTransfer"} {
		hs = append(hs, pricingHarness(k, "direct", 2))
	}
	// H3t: the same with tight gas
	for _, k := range bodies.ExecKinds {
		hs = append(hs, tightHarness(k, true, bound))
		if thorough {
			hs = append(hs, tightHarness(k, false, bound))
		}
	}
	// H3f: flat schedules
	for _, kd := range [][2]string{{"SaveKeyValue", "PersistPerByte"}, {"SaveKeyValue", "StorePerByte"}, {"ESDTNFTCreate", "StorePerByte"}, {"ESDTNFTAddURI", "StorePerByte"},
		{"ESDTNFTUpdateAttributes", "StorePerByte"}, {"ESDTNFTTransfer", "DataCopyPerByte"}, {"MultiESDTNFTTransfer", "DataCopyPerByte"}, {"ESDTTransfer", "DataCopyPerByte"}} {
		hs = append(hs, flatHarness(kd[0], kd[1], 2))
	}
	// H5: every kind against itself on another token (the same function object), and mixed pairs
	for _, k := range bodies.ExecKinds {
		if k == "SaveKeyValue" {
			continue // names no token
		}
		hs = append(hs, isolationHarness(k, k, false, 2))
	}
	hs = append(hs, isolationHarness("ESDTNFTAddURI", "ESDTNFTCreate", false, 2), isolationHarness("MultiESDTNFTTransfer", "ESDTNFTAddURI", false, 2),
		isolationHarness("ESDTLocalMint", "ESDTTransfer", false, 2), isolationHarness("ESDTNFTTransfer/same-shard", "MultiESDTNFTTransfer/same-shard", false, 2),
		isolationHarness("ESDTNFTTransfer", "ESDTNFTTransfer/same-shard-contract-with-call", false, 2), isolationHarness("MultiESDTNFTTransfer/same-shard", "MultiESDTNFTTransfer", false, 2))
	if thorough {
		hs = append(hs, isolationHarness("ESDTNFTCreate", "ESDTNFTAddURI", true, 2), isolationHarness("ESDTNFTTransfer", "MultiESDTNFTTransfer", false, 3))
	}
	// H6: every kind against itself with other argument sizes, both successful
	for _, k := range bodies.ExecKinds {
		hs = append(hs, sizedHarness(k, 2))
	}
	return hs
}

// ---------------------------------------------------------------------------------------------
// process sharding: the harnesses are independent, the scheduler is process-global - so the parent
// starts n children, child i explores every harness whose index is i modulo n and writes what it
// covered to a file; the parent merges the files. Nothing is sampled: the union of the shards is
// the whole harness list.

type partialFam struct {
	Executions int64            `json:"executions"`
	Points     int64            `json:"points"`
	Histories  []string         `json:"histories"`
	Outcomes   map[string]int64 `json:"outcomes"`
	MaxBound   int              `json:"max_bound"`
	Capped     bool             `json:"capped"`
	Diverged   int64            `json:"diverged"`
}

type partial struct {
	Families  map[string]*partialFam `json:"families"`
	Viols     []checks.Viol          `json:"violations"`
	Samples   []interface{}          `json:"samples"`
	Skipped   int                    `json:"skipped"`
	Harnesses int                    `json:"harnesses"`
	SelfCheck string                 `json:"self_check"`
}

func hashKey(s string) string {
	h := fnv.New64a()
	_, _ = h.Write([]byte(s))
	return strconv.FormatUint(h.Sum64(), 16)
}

func shardCount() int {
	n := 6
	if v, err := strconv.Atoi(os.Getenv("VERIF_E4_SHARDS")); err == nil && v >= 1 {
		n = v
	}
	return n
}

// runShards starts the children and merges their partial results into fam; it returns the merged
// samples, the number of harnesses skipped by the time cap and whether every child finished.
func runShards(tier checks.Tier, stage13 bool, n int, fam map[string]*stats) (samples []interface{}, skipped int, harnesses int) {
	type child struct {
		cmd  *exec.Cmd
		file string
	}
	var cs []child
	tag := "19"
	if stage13 {
		tag = "13"
	}
	for i := 0; i < n; i++ {
		file := fmt.Sprintf("%s/.work/partial%s_%d.json", checks.Root, tag, i)
		_ = os.Remove(file)
		args := []string{string(tier)}
		if stage13 {
			args = append(args, "stage13")
		}
		args = append(args, fmt.Sprintf("--shard=%d/%d", i, n), "--partial="+file)
		cmd := exec.Command(os.Args[0], args...)
		cmd.Env = append(os.Environ(), "GOMAXPROCS=2")
		cmd.Stdout, cmd.Stderr = os.Stdout, os.Stderr
		if err := cmd.Start(); err != nil {
			fmt.Printf("SELF-CHECK property=%s cannot start explorer shard %d: %v\n", P, i, err)
			os.Exit(2)
		}
		cs = append(cs, child{cmd, file})
	}
	for i, c := range cs {
		err := c.cmd.Wait()
		b, rerr := os.ReadFile(c.file)
		var pt partial
		if err != nil || rerr != nil || json.Unmarshal(b, &pt) != nil {
			fmt.Printf("SELF-CHECK property=%s explorer shard %d did not deliver its result (%v / %v)\n", P, i, err, rerr)
			os.Exit(2)
		}
		if pt.SelfCheck != "" {
			fmt.Printf("SELF-CHECK property=%s %s\n", P, pt.SelfCheck)
			os.Exit(2)
		}
		for f, pf := range pt.Families {
			st := fam[f]
			if st == nil {
				st = &stats{histories: map[string]bool{}, outcomes: map[string]int64{}}
				fam[f] = st
			}
			st.executions += pf.Executions
			st.points += pf.Points
			st.diverged += pf.Diverged
			st.capped = st.capped || pf.Capped
			if pf.MaxBound > st.maxBound {
				st.maxBound = pf.MaxBound
			}
			for _, h := range pf.Histories {
				st.histories[h] = true
			}
			for k, v := range pf.Outcomes {
				st.outcomes[k] += v
			}
		}
		for _, v := range pt.Viols {
			k := v.Clause + "/" + v.Sig
			if !violSeen[k] {
				violSeen[k] = true
				viols = append(viols, v)
			}
		}
		if len(samples) < 8 {
			samples = append(samples, pt.Samples...)
		}
		skipped += pt.Skipped
		harnesses += pt.Harnesses
		_ = os.Remove(c.file)
	}
	if len(samples) > 8 {
		samples = samples[:8]
	}
	return samples, skipped, harnesses
}

func main() {
	if len(os.Args) > 2 && os.Args[1] == "replay" {
		os.Exit(runReplay(os.Args[2]))
	}
	tier := checks.Tier("quick")
	if len(os.Args) > 1 {
		tier = checks.Tier(os.Args[1])
	}
	// second stage of C13: the isolation harnesses only (executions on the same function objects
	// overlapping in time must observe what they observe alone), reported under C13
	stage13 := len(os.Args) > 2 && os.Args[2] == "stage13"
	shardI, shardN, partialFile := 0, 1, ""
	for _, a := range os.Args[1:] {
		if strings.HasPrefix(a, "--shard=") {
			_, _ = fmt.Sscanf(a, "--shard=%d/%d", &shardI, &shardN)
		}
		if strings.HasPrefix(a, "--partial=") {
			partialFile = strings.TrimPrefix(a, "--partial=")
		}
	}
	start := time.Now()
	bodies.Hook = func(kind string) { vsched.Point(vsched.Op{Kind: "env." + kind}) }
	bodies.Tick = vsched.Tick
	hs := allHarnesses(tier)
	if stage13 {
		var only []harness
		for _, h := range hs {
			if f := harnessFamily(h.name); f == "H5" || f == "H6" {
				only = append(only, h)
			}
		}
		hs = only
	}
	fam := map[string]*stats{}
	deadline := 150 * time.Second
	if tier.Thorough() {
		deadline = 25 * time.Minute
	}
	exhaustive := true
	var samples []interface{}
	skipped := 0
	explored := 0
	parent := partialFile == "" && shardCount() > 1
	if parent {
		samples, skipped, explored = runShards(tier, stage13, shardCount(), fam)
		if skipped > 0 {
			exhaustive = false
		}
	}
	for hi, h := range hs {
		if parent || hi%shardN != shardI {
			continue
		}
		explored++
		f := harnessFamily(h.name)
		st := fam[f]
		if st == nil {
			st = &stats{histories: map[string]bool{}, outcomes: map[string]int64{}}
			fam[f] = st
		}
		if time.Since(start) > deadline {
			exhaustive = false
			skipped++
			continue
		}
		curHistories = map[string]bool{}
		before := st.executions
		explore(h, st, 400000)
		for k := range curHistories {
			st.histories[k] = true
		}
		if h.bound > st.maxBound {
			st.maxBound = h.bound
		}
		if len(samples) < 8 && (len(samples) == 0 || st.executions-before > 50) {
			samples = append(samples, map[string]interface{}{"harness": h.name, "preemption_bound": h.bound, "schedules_executed": st.executions - before})
		}
	}
	if partialFile != "" {
		pt := partial{Families: map[string]*partialFam{}, Viols: viols, Samples: samples, Skipped: skipped, Harnesses: explored - skipped}
		for f, st := range fam {
			pf := &partialFam{Executions: st.executions, Points: st.points, Outcomes: st.outcomes, MaxBound: st.maxBound, Capped: st.capped, Diverged: st.diverged}
			for h := range st.histories {
				pf.Histories = append(pf.Histories, hashKey(h))
			}
			pt.Families[f] = pf
		}
		b, _ := json.Marshal(pt)
		if err := os.WriteFile(partialFile, b, 0o644); err != nil {
			os.Exit(3)
		}
		os.Exit(0)
	}
	// the separate free-running race pass (not model checking; reported separately)
	var race map[string]interface{}
	if stage13 {
		race = map[string]interface{}{"note": "the race pass belongs to C19"}
	} else if b, err := os.ReadFile(checks.Root + "/.work/race.json"); err == nil {
		_ = json.Unmarshal(b, &race)
		if hung, _ := race["hung"].(bool); hung {
			viols = append(viols, checks.Viol{Property: P, Clause: "deadlock", Sig: "race-pass-hung", Detail: "the free-running pass over the harness bodies (real sync package, 16 OS threads) did not terminate within its generous time limit - threads of the code under test block each other for ever", Kind: "race", Replay: race})
		}
		if n, _ := race["reports"].(float64); n > 0 {
			viols = append(viols, checks.Viol{Property: P, Clause: "data-race", Sig: fmt.Sprint(race["first_site"]), Detail: fmt.Sprintf("the free-running race-detector pass reported %v data race(s); first: %v", n, race["first_report"]), Kind: "race", Replay: race})
		}
	}
	var execs, points int64
	famOut := map[string]interface{}{}
	totalOutcomes := 0
	var selfCheck []string
	for f, st := range fam {
		execs += st.executions
		points += st.points
		totalOutcomes += len(st.outcomes)
		famOut[f] = map[string]interface{}{"schedules_executed": st.executions, "scheduling_points": st.points, "distinct_histories": len(st.histories), "distinct_outcomes": len(st.outcomes), "max_preemption_bound": st.maxBound, "execution_cap_hit": st.capped, "diverged_prefix_replays": st.diverged}
		if st.diverged > 0 {
			exhaustive = false
			selfCheck = append(selfCheck, fmt.Sprintf("harness family %s: %d prefix replays diverged (nondeterminism not owned by the scheduler)", f, st.diverged))
		}
		if len(st.outcomes) < 2 && st.executions > 10 {
			selfCheck = append(selfCheck, fmt.Sprintf("harness family %s: a single outcome over %d schedules - nothing collided", f, st.executions))
		}
		if st.capped {
			exhaustive = false
		}
	}
	if race == nil {
		selfCheck = append(selfCheck, "race pass result (.work/race.json) missing")
	}
	o := &checks.Outcome{Property: P, Tier: tier, Level: "model_checking", Start: start, Violations: viols, SelfCheck: selfCheck,
		Assumptions: []string{
			"scheduling points: every RWMutex operation (writer preference modelled: a waiting writer blocks new readers), every sync/atomic operation and every environment (dependency) call; sequential consistency; memory-model effects weaker than that are not modelled",
			"2-4 threads per harness (the quantifier's 2-16 goroutines are covered with 2-3 threads at preemption bound 2 and 4 threads at bound 1, thorough 3 / 2; not with 16)",
			"unsynchronised accesses are invisible to a cooperative scheduler; they are the business of the separate free-running -race pass over the same bodies, which is a dynamic detector and reported separately",
			"single schedule-changer thread (concurrent GasScheduleChange calls are outside the statement)",
		}}
	o.Coverage = map[string]interface{}{
		"states":                        points,
		"transitions":                   points,
		"traces_validated_against_impl": execs,
		"schedules_executed":            execs,
		"harnesses":                     explored - map[bool]int{true: 0, false: skipped}[parent],
		"explorer_processes":            map[bool]int{true: shardCount(), false: 1}[parent],
		"harnesses_skipped_by_time_cap": skipped,
		"families":                      famOut,
		"exhaustive":                    exhaustive,
		"samples":                       samples,
		"race_pass":                     race,
		"explanation":                   "stateless DFS over schedules with iterative preemption bounding on the real code: 'states' counts the scheduling decisions visited (no state hashing is used), 'traces_validated_against_impl' the complete executions, each of which is an execution of the implementation checked against a sequential specification (porcupine, cross-checked by brute force) or the closed-form charge",
	}
	if stage13 {
		o.Property = "C13"
		o.MergeSection = "concurrent_isolation"
		for i := range o.Violations {
			o.Violations[i].Property = "C13"
		}
		o.Assumptions = []string{"concurrent stage: two executions on the same function objects (different tokens of equal length) under every schedule with at most 2 preemptions; scheduling points at every lock, atomic and environment call"}
	}
	os.Exit(checks.Finish(o))
}
