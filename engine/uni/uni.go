// Package uni is the small universe shared by the exploration profiles (DESIGN.md §4): accounts
// chosen to collide, token names that alias each other's keys, seed states built with real calls.
package uni

import (
	"fmt"
	"math/big"

	vmcommon "github.com/ElrondNetwork/elrond-vm-common"

	"verif/engine/world"
)

func user(c byte, shard byte) []byte {
	a := make([]byte, 32)
	for i := range a {
		a[i] = 0x11
	}
	a[0] = c
	a[31] = shard
	return a
}

func contract(c byte, shard byte) []byte {
	a := make([]byte, 32)
	a[8], a[9] = 5, 0
	for i := 10; i < 31; i++ {
		a[i] = 0x22
	}
	a[10] = c
	a[31] = shard
	return a
}

// The accounts of the universe.
var (
	A0  = user('a', 0)
	B0  = user('b', 0)
	C1  = user('c', 1)
	E2  = user('e', 2)
	Z1  = user('z', 0xff) // an ordinary account whose address ends in 0xff (shard 255 mod n)
	S0  = contract('s', 0)
	S1c = contract('s', 1)
	D0  = contract('d', 0)
	T0  = contract('t', 0) // a contract whose owner is the contract s0
	U1  = contract('u', 1) // a contract on shard 1 whose owner a0 lives on shard 0
	V1  = contract('v', 1) // a contract on shard 1 whose owner is the contract s0 on shard 0
	M   = contract('m', 0xff)
	// M2 is another metachain system contract (the delegation manager's address form)
	M2   = func() []byte { a := append([]byte{}, vmcommon.ESDTSCAddress...); a[29] = 4; return a }()
	Sys  = vmcommon.SystemAccountAddress
	ESDT = vmcommon.ESDTSCAddress
)

// Token names. The default universe uses one-byte identifiers (so that token||nonce aliasing
// happens at nonce 1); UseLongIDs switches to identifiers of realistic shape and length.
var (
	F  = []byte("F")
	F1 = []byte("F\x01")
	S  = []byte("S")
	S1 = []byte("S\x01")
	U  = []byte("U")
	R  = []byte("R")
)

// LongIDs reports whether the long-identifier universe is active.
var LongIDs = false

// UseLongIDs switches the token identifiers (call only while no search is running).
func UseLongIDs(on bool) {
	LongIDs = on
	if on {
		// realistic shape (ticker-6 hex digits); the two collections differ in their last byte only,
		// the fungible token shares a 7-byte prefix with them and the unissued name is a strict
		// prefix of a collection's identifier
		F, S, U, R = []byte("COLLECT-a1b2c3"), []byte("COLLECTION-0a0b0c"), []byte("COLLECTION-0a0b"), []byte("COLLECTION-0a0b0d")
	} else {
		F, S, U, R = []byte("F"), []byte("S"), []byte("U"), []byte("R")
	}
	F1 = append(append([]byte{}, F...), 1)
	S1 = append(append([]byte{}, S...), 1)
}

// Name renders an address (or token) with its universe name.
func Name(a []byte) string {
	switch string(a) {
	case string(A0):
		return "a0"
	case string(B0):
		return "b0"
	case string(C1):
		return "c1"
	case string(E2):
		return "e2"
	case string(Z1):
		return "z1"
	case string(S0):
		return "s0"
	case string(S1c):
		return "s1"
	case string(D0):
		return "d0"
	case string(T0):
		return "t0"
	case string(U1):
		return "u1"
	case string(V1):
		return "v1"
	case string(M):
		return "m"
	case string(M2):
		return "m2"
	case string(Sys):
		return "sys"
	case string(ESDT):
		return "ESDTSC"
	}
	return fmt.Sprintf("%x", a)
}

// All role names.
var AllRoles = []string{vmcommon.ESDTRoleLocalMint, vmcommon.ESDTRoleLocalBurn, vmcommon.ESDTRoleNFTCreate,
	vmcommon.ESDTRoleNFTAddQuantity, vmcommon.ESDTRoleNFTBurn, vmcommon.ESDTRoleNFTAddURI, vmcommon.ESDTRoleNFTUpdateAttributes}

// NFTRoles are the roles given to NFT/SFT tokens (A7 c).
var NFTRoles = AllRoles[2:]

// Big returns the minimal big-endian bytes of n.
func Big(n int64) []byte { return big.NewInt(n).Bytes() }

// Gas is the default GasProvided of exploration calls (far above any cost of the prime schedules).
const Gas = uint64(10_000_000)

// Call builds a call action.
func Call(caller, recipient []byte, fn string, args ...[]byte) world.Action {
	return world.Action{Kind: world.ActCall, Caller: caller, Recipient: recipient, Func: fn, Args: args, Gas: Gas}
}

// SysCall builds a call by the ESDT system contract executed on the recipient's shard.
func SysCall(recipient []byte, fn string, args ...[]byte) world.Action {
	return world.Action{Kind: world.ActCall, Caller: ESDT, Recipient: recipient, Func: fn, Args: args, Gas: Gas}
}

// PauseCall builds ESDTPause/ESDTUnPause on the given shard.
func PauseCall(shard int, fn string, tok []byte) world.Action {
	return world.Action{Kind: world.ActCall, Caller: ESDT, Recipient: Sys, Func: fn, Args: [][]byte{tok}, Gas: Gas, Shard: shard}
}

// SysOn is the shard-flavoured system account address the system contract's broadcast uses
// (0xff x 31 followed by the shard id).
func SysOn(shard int) []byte {
	a := append([]byte{}, Sys...)
	a[len(a)-1] = byte(shard)
	return a
}

// PauseCallAt is PauseCall addressed to the shard-flavoured system account address.
func PauseCallAt(shard int, fn string, tok []byte) world.Action {
	return world.Action{Kind: world.ActCall, Caller: ESDT, Recipient: SysOn(shard), Func: fn, Args: [][]byte{tok}, Gas: Gas, Shard: shard}
}

// Deliver builds the delivery of in-flight message i.
func Deliver(i int) world.Action { return world.Action{Kind: world.ActDeliver, Msg: i} }

// Transfer helpers ---------------------------------------------------------------------------

func ESDTTransfer(from, to, tok []byte, q int64, extra ...[]byte) world.Action {
	return Call(from, to, vmcommon.BuiltInFunctionESDTTransfer, append([][]byte{tok, Big(q)}, extra...)...)
}

func NFTTransfer(from, to, tok []byte, nonce, q int64, extra ...[]byte) world.Action {
	return Call(from, from, vmcommon.BuiltInFunctionESDTNFTTransfer, append([][]byte{tok, Big(nonce), Big(q), to}, extra...)...)
}

// Ent is one (token, nonce, quantity) entry of a multi-transfer.
type Ent struct {
	Tok   []byte
	Nonce int64
	Q     int64
}

func Multi(from, to []byte, ents []Ent, extra ...[]byte) world.Action {
	args := [][]byte{to, Big(int64(len(ents)))}
	for _, e := range ents {
		n := Big(e.Nonce)
		args = append(args, e.Tok, n, Big(e.Q))
	}
	args = append(args, extra...)
	return Call(from, from, vmcommon.BuiltInFunctionMultiESDTNFTTransfer, args...)
}

func roleArgs(tok []byte, roles []string) [][]byte {
	a := [][]byte{tok}
	for _, r := range roles {
		a = append(a, []byte(r))
	}
	return a
}

func SetRole(acct, tok []byte, roles ...string) world.Action {
	return SysCall(acct, vmcommon.BuiltInFunctionSetESDTRole, roleArgs(tok, roles)...)
}

func UnSetRole(acct, tok []byte, roles ...string) world.Action {
	return SysCall(acct, vmcommon.BuiltInFunctionUnSetESDTRole, roleArgs(tok, roles)...)
}

// Create builds ESDTNFTCreate with a fixed small metadata.
func Create(acct, tok []byte, q int64) world.Action {
	return Call(acct, acct, vmcommon.BuiltInFunctionESDTNFTCreate, tok, Big(q), []byte("n"), Big(100), []byte("h"), []byte("a"), []byte("u"))
}

// Seeds ---------------------------------------------------------------------------------------

// Builder builds seed states with real calls only.
type Builder struct {
	Env *world.Env
	W   *world.World
	Log []string
	// Legs records every execution of the construction, so that the oracles of a search can be
	// applied to the seed-building steps as well; Failed is set (and construction stops) when a
	// step that has to succeed does not.
	Legs   []*world.Leg
	Failed string
}

// NewBuilder starts from the empty world with the contracts of the universe deployed (deployment
// is outside the library: owner, code metadata and developer reward are set directly).
func NewBuilder(env *world.Env) *Builder {
	w := world.New(env.Cfg.NumShards)
	w.Meta[string(M)] = true
	w.Meta[string(M2)] = true
	mk := func(addr, owner []byte) {
		a := w.Ensure(addr)
		a.Owner = append([]byte{}, owner...)
		a.CodeMetadata = []byte{1, 0}
		a.DevReward = big.NewInt(7)
	}
	mk(S0, A0)
	mk(D0, A0)
	mk(T0, S0)
	if env.Cfg.NumShards > 1 {
		mk(S1c, C1)
		mk(U1, A0)
		mk(V1, S0)
	}
	return &Builder{Env: env, W: w}
}

// Must applies an action and panics unless every leg succeeded.
func (b *Builder) Must(act world.Action) *Builder {
	if b.Failed != "" {
		return b
	}
	if (act.Kind == world.ActDeliver || act.Kind == world.ActDeliverTwice) && act.Msg >= len(b.W.Inflight) {
		b.Failed = "seed construction: no message in flight to deliver"
		return b
	}
	nw, legs := b.Env.Step(b.W, act)
	b.Legs = append(b.Legs, legs...)
	for _, l := range legs {
		if !l.OK() && l.Side != "intra" {
			b.Failed = fmt.Sprintf("seed construction step failed although it has to succeed: %s %s: err=%v panic=%v", l.Side, l.Func, l.Err, l.Panic)
			return b
		}
	}
	b.W = nw
	return b
}

// Refused applies an action whose first execution is expected to be refused (e.g. a delivery to
// a non-payable contract, which leaves a refund in flight).
func (b *Builder) Refused(act world.Action) *Builder {
	if b.Failed != "" {
		return b
	}
	if (act.Kind == world.ActDeliver || act.Kind == world.ActDeliverTwice) && act.Msg >= len(b.W.Inflight) {
		b.Failed = "seed construction: no message in flight to deliver"
		return b
	}
	nw, legs := b.Env.Step(b.W, act)
	b.Legs = append(b.Legs, legs...)
	if len(legs) == 0 || legs[0].OK() {
		b.Failed = "seed construction: a step that was expected to be refused succeeded"
		return b
	}
	b.W = nw
	return b
}

// Fail marks the construction as failed (used by seed recipes for their own expectations).
func (b *Builder) Fail(why string) {
	if b.Failed == "" {
		b.Failed = why
	}
}

// DeliverAll delivers every in-flight message (in canonical order) and requires success.
func (b *Builder) DeliverAll() *Builder {
	for len(b.W.Inflight) > 0 && b.Failed == "" {
		b.Must(Deliver(0))
	}
	return b
}

func (b *Builder) fung() *Builder {
	b.Must(SetRole(A0, F, vmcommon.ESDTRoleLocalMint, vmcommon.ESDTRoleLocalBurn))
	b.Must(Call(A0, A0, vmcommon.BuiltInFunctionESDTLocalMint, F, Big(6)))
	b.Must(ESDTTransfer(A0, B0, F, 1))
	if b.Env.Cfg.NumShards > 1 {
		b.Must(ESDTTransfer(A0, C1, F, 2)).DeliverAll()
	}
	b.Must(SetRole(A0, F1, vmcommon.ESDTRoleLocalMint))
	b.Must(Call(A0, A0, vmcommon.BuiltInFunctionESDTLocalMint, F1, Big(2)))
	b.Must(UnSetRole(A0, F1, vmcommon.ESDTRoleLocalMint))
	return b
}

func (b *Builder) sft() *Builder {
	b.Must(SetRole(A0, S, NFTRoles...))
	b.Must(Create(A0, S, 5))
	b.Must(NFTTransfer(A0, B0, S, 1, 1))
	if b.Env.Cfg.NumShards > 1 {
		b.Must(NFTTransfer(A0, C1, S, 1, 1)).DeliverAll()
	}
	b.Must(Create(A0, S, 1))
	return b
}

// Seed builds the named seed state (panics when the construction fails).
func Seed(env *world.Env, name string) *world.World {
	b := SeedBuilder(env, name)
	if b.Failed != "" {
		panic(b.Failed)
	}
	return b.W
}

// SeedBuilder builds the named seed state on a freshly built set of function objects with env's
// configuration (so that a recipe never depends on what env's objects executed before) and returns
// the builder with its recorded legs.
func SeedBuilder(env *world.Env, name string) *Builder {
	fresh, err := world.NewEnv(env.Cfg)
	if err != nil {
		panic(err)
	}
	return SeedBuilderOn(fresh, name)
}

// SeedBuilderOn builds the named seed state on env's own function objects.
func SeedBuilderOn(env *world.Env, name string) *Builder {
	b := NewBuilder(env)
	switch name {
	case "empty":
	case "fung":
		b.fung()
	case "sft":
		b.sft()
	case "mixed":
		b.fung().sft()
	case "frozen":
		b.fung().sft()
		b.Must(SysCall(B0, vmcommon.BuiltInFunctionESDTFreeze, F))
		if env.Cfg.NumShards > 1 {
			b.Must(PauseCall(1, vmcommon.BuiltInFunctionESDTPause, F))
		}
	case "aliased":
		// undisciplined system contract: a0 holds the NFT roles of the fungible token F while it
		// holds the fungible token "F\x01", whose key equals the key of (F, nonce 1)
		b.fung().sft()
		b.Must(SetRole(A0, F, NFTRoles...))
	case "refunds":
		// mixed, plus one refused delivery of each transfer function: three refunds in flight
		b.fung().sft()
		b.Must(ESDTTransfer(A0, S1c, F, 1))
		b.Must(NFTTransfer(A0, S1c, S, 1, 1))
		b.Must(Multi(A0, S1c, []Ent{{Tok: F, Nonce: 0, Q: 1}, {Tok: S, Nonce: 2, Q: 1}}))
		for i := 0; i < 3; i++ {
			// deliveries to the non-payable contract s1 fail and are answered by refunds
			idx := -1
			for j, m := range b.W.Inflight {
				if !m.Refund {
					idx = j
				}
			}
			if idx < 0 || b.Failed != "" {
				b.Fail("seed refunds: no message to deliver")
				break
			}
			nw, legs := b.Env.Step(b.W, Deliver(idx))
			b.Legs = append(b.Legs, legs...)
			if legs[0].OK() || legs[0].Refund == nil {
				b.Fail("seed refunds: delivery to the non-payable contract was expected to fail with a refund")
				break
			}
			b.W = nw
		}
	case "refunds-with-call":
		// mixed, plus refunds of transfers that carried an attached call: the deliveries were
		// refused because the token was paused on the destination shard / the destination frozen
		b.fung().sft()
		b.Must(PauseCall(1, vmcommon.BuiltInFunctionESDTPause, S))
		b.Must(SysCall(C1, vmcommon.BuiltInFunctionESDTFreeze, F))
		b.Must(ESDTTransfer(A0, C1, F, 1, []byte("f")))
		b.Must(NFTTransfer(A0, S1c, S, 1, 1, []byte("f")))
		b.Must(Multi(A0, S1c, []Ent{{Tok: S, Nonce: 2, Q: 1}, {Tok: F1, Nonce: 0, Q: 1}}, []byte("f"), []byte{7}))
		for i := 0; i < 3; i++ {
			idx := -1
			for j, m := range b.W.Inflight {
				if !m.Refund {
					idx = j
				}
			}
			if idx < 0 || b.Failed != "" {
				b.Fail("seed refunds-with-call: no message to deliver")
				break
			}
			nw, legs := b.Env.Step(b.W, Deliver(idx))
			b.Legs = append(b.Legs, legs...)
			if legs[0].OK() || legs[0].Refund == nil {
				b.Fail("seed refunds-with-call: the delivery was expected to be refused and answered by a refund")
				break
			}
			b.W = nw
		}
		b.Must(PauseCall(1, vmcommon.BuiltInFunctionESDTUnPause, S))
	case "handover":
		b.sft()
		b.Must(SysCall(A0, vmcommon.BuiltInFunctionESDTNFTCreateRoleTransfer, S, C1))
	case "zero-credit":
		// an account frozen while it holds nothing keeps a zero-balance entry; a credit flagged
		// return-after-error (the paying side of a same-shard return) adds to that decoded zero
		b.fung()
		b.Must(SysCall(E2, vmcommon.BuiltInFunctionESDTFreeze, F))
		ret := ESDTTransfer(A0, E2, F, 1)
		ret.ReturnAfterError = true
		b.Must(ret)
		b.Must(SysCall(Z1, vmcommon.BuiltInFunctionESDTFreeze, F))
		b.Must(SysCall(Z1, vmcommon.BuiltInFunctionESDTUnFreeze, F))
	default:
		panic("unknown seed " + name)
	}
	return b
}
