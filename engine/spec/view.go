// Package spec is the reference ledger: a deliberately boring decoding of the world into balances,
// flags, role lists and counters, and - per built-in function - the effect a successful call must
// have (DESIGN.md Appendix A). It shares no code with the implementation: keys are split here,
// amounts are big.Int, messages are tokenised by a local splitter.
package spec

import (
	"bytes"
	"encoding/hex"
	"math/big"
	"sort"
	"strings"

	vmcommon "github.com/ElrondNetwork/elrond-vm-common"
	"github.com/ElrondNetwork/elrond-vm-common/data/esdt"

	"verif/engine/world"
)

// Storage key prefixes of the protocol entries.
const (
	TokPrefix   = "ELRONDesdt"
	RolePrefix  = "ELRONDroleesdt"
	NoncePrefix = "ELRONDnonce"
)

// IsSystemAccount reports whether addr is the per-shard system account.
func IsSystemAccount(addr []byte) bool { return bytes.Equal(addr, vmcommon.SystemAccountAddress) }

// DecodeToken decodes a stored token entry with the production decoder.
func DecodeToken(raw []byte) (*esdt.ESDigitalToken, error) {
	t := &esdt.ESDigitalToken{}
	if err := t.Unmarshal(raw); err != nil {
		return nil, err
	}
	return t, nil
}

// NonceSuffix is the minimal big-endian encoding of nonce (empty for 0), as appended to token keys.
func NonceSuffix(nonce uint64) string {
	return string(new(big.Int).SetUint64(nonce).Bytes())
}

// ArgUint64 is the low 64 bits of the big-endian number in arg (how nonces and counts are read).
func ArgUint64(arg []byte) uint64 {
	return new(big.Int).SetBytes(arg).Uint64()
}

// ArgBig is the unsigned big-endian number in arg.
func ArgBig(arg []byte) *big.Int { return new(big.Int).SetBytes(arg) }

// BalKey identifies one balance entry of one account: address | key suffix (token || nonce bytes).
func BalKey(addr []byte, suffix string) string { return string(addr) + "|" + suffix }

// SplitBalKey inverts BalKey for 32-byte addresses.
func SplitBalKey(k string) (addr []byte, suffix string) {
	return []byte(k[:32]), k[33:]
}

// Balances maps every (non-system account, token key suffix) to the decoded Value. Entries that
// do not decode or have a nil Value are skipped here (C15 reports them).
func Balances(w *world.World) map[string]*big.Int {
	out := map[string]*big.Int{}
	for _, s := range w.Shards {
		for _, a := range s.Accts {
			sys := IsSystemAccount(a.Addr)
			for k, v := range a.Storage {
				if !strings.HasPrefix(k, TokPrefix) {
					continue
				}
				if sys && len(v) == 2 {
					continue // a pause flag, not a holding
				}
				t, err := DecodeToken(v)
				if err != nil || t.Value == nil {
					continue
				}
				bk := BalKey(a.Addr, k[len(TokPrefix):])
				if sys && out[bk] != nil {
					// the system account exists on every shard under one address: its own holdings
					// (tokens somebody sent to 0xff..ff) are summed
					out[bk] = new(big.Int).Add(out[bk], t.Value)
					continue
				}
				out[bk] = new(big.Int).Set(t.Value)
			}
		}
	}
	return out
}

// Delta is post - pre over all balance entries, keeping only non-zero differences.
func Delta(pre, post map[string]*big.Int) map[string]*big.Int {
	d := map[string]*big.Int{}
	for k, v := range post {
		p := pre[k]
		if p == nil {
			p = new(big.Int)
		}
		x := new(big.Int).Sub(v, p)
		if x.Sign() != 0 {
			d[k] = x
		}
	}
	for k, p := range pre {
		if _, ok := post[k]; ok {
			continue
		}
		if p.Sign() != 0 {
			d[k] = new(big.Int).Neg(p)
		}
	}
	return d
}

// AddTo adds q to d[k], dropping the entry when it becomes zero.
func AddTo(d map[string]*big.Int, k string, q *big.Int) {
	v := d[k]
	if v == nil {
		v = new(big.Int)
	}
	v = new(big.Int).Add(v, q)
	if v.Sign() == 0 {
		delete(d, k)
		return
	}
	d[k] = v
}

// EqualDelta compares two delta maps.
func EqualDelta(a, b map[string]*big.Int) bool {
	if len(a) != len(b) {
		return false
	}
	for k, v := range a {
		w, ok := b[k]
		if !ok || v.Cmp(w) != 0 {
			return false
		}
	}
	return true
}

// FmtDelta renders a delta map deterministically with short account names.
func FmtDelta(d map[string]*big.Int, name func([]byte) string) string {
	keys := make([]string, 0, len(d))
	for k := range d {
		keys = append(keys, k)
	}
	sort.Strings(keys)
	var sb strings.Builder
	sb.WriteString("{")
	for i, k := range keys {
		if i > 0 {
			sb.WriteString(", ")
		}
		a, s := SplitBalKey(k)
		sb.WriteString(name(a) + ":" + hex.EncodeToString([]byte(s)) + ":" + d[k].String())
	}
	sb.WriteString("}")
	return sb.String()
}

// Entry returns the decoded token entry of acc under suffix, or nil.
func Entry(acc *world.Account, suffix string) *esdt.ESDigitalToken {
	if acc == nil {
		return nil
	}
	raw, ok := acc.Storage[TokPrefix+suffix]
	if !ok {
		return nil
	}
	t, err := DecodeToken(raw)
	if err != nil {
		return nil
	}
	return t
}

// Held is the decoded balance of acc under suffix (0 when absent).
func Held(acc *world.Account, suffix string) *big.Int {
	t := Entry(acc, suffix)
	if t == nil || t.Value == nil {
		return new(big.Int)
	}
	return new(big.Int).Set(t.Value)
}

// Frozen reads the frozen flag exactly as the anchor defines it: bit 0 of byte 0 of the 2-byte
// Properties of the entry stored under the bare token key.
func Frozen(acc *world.Account, tok string) bool {
	t := Entry(acc, tok)
	if t == nil {
		return false
	}
	return len(t.Properties) == 2 && t.Properties[0]&1 != 0
}

// Paused reads the pause flag of tok on shard: bit 0 of byte 0 of the 2-byte value under
// ELRONDesdt||tok in the shard's system account.
func Paused(w *world.World, shard uint32, tok string) bool {
	sys := w.GetOn(shard, vmcommon.SystemAccountAddress)
	if sys == nil {
		return false
	}
	v := sys.Storage[TokPrefix+tok]
	return len(v) == 2 && v[0]&1 != 0
}

// Roles returns the decoded role list of acc for tok (nil when absent or undecodable).
func Roles(acc *world.Account, tok string) [][]byte {
	if acc == nil {
		return nil
	}
	raw, ok := acc.Storage[RolePrefix+tok]
	if !ok {
		return nil
	}
	r := &esdt.ESDTRoles{}
	if err := r.Unmarshal(raw); err != nil {
		return nil
	}
	return r.Roles
}

// HasRole reports whether acc's stored role list for tok contains role.
func HasRole(acc *world.Account, tok string, role string) bool {
	for _, r := range Roles(acc, tok) {
		if string(r) == role {
			return true
		}
	}
	return false
}

// Counter is the stored nonce counter of acc for tok.
func Counter(acc *world.Account, tok string) uint64 {
	if acc == nil {
		return 0
	}
	return new(big.Int).SetBytes(acc.Storage[NoncePrefix+tok]).Uint64()
}

// SplitData tokenises function@hex@hex... independently of the library's parser.
func SplitData(data []byte) (fn string, args [][]byte, ok bool) {
	parts := strings.Split(string(data), "@")
	if len(parts) == 0 || parts[0] == "" {
		return "", nil, false
	}
	fn = parts[0]
	args = [][]byte{}
	for _, p := range parts[1:] {
		b, err := hex.DecodeString(p)
		if err != nil {
			return "", nil, false
		}
		args = append(args, b)
	}
	return fn, args, true
}
