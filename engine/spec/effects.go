package spec

import (
	"bytes"
	"math/big"

	vmcommon "github.com/ElrondNetwork/elrond-vm-common"

	"verif/engine/world"
)

// Item is one listed (token, nonce, quantity) of a transfer call.
type Item struct {
	Tok     string
	Nonce   uint64
	Qty     *big.Int // requested quantity (sender side) / carried quantity (destination side)
	Payload []byte   // destination side, nonce > 0: the marshalled entry
}

// Suffix is the storage-key suffix of the item.
func (i Item) Suffix() string { return i.Tok + NonceSuffix(i.Nonce) }

// Transfer is the reference reading of a transfer call's arguments.
type Transfer struct {
	Func     string
	Sender   bool // sender-side layout (caller == recipient for NFT/multi; sender account local for ESDTTransfer)
	Dest     []byte
	Items    []Item
	CallFn   []byte // attached call function (nil = none)
	CallArgs [][]byte
	HasCall  bool
	MinArgs  int // number of arguments the transfer itself occupies
}

// ParseTransfer reads the arguments of one of the three transfer functions the way the protocol
// documents them. ok=false means the reference cannot interpret the call (then nothing is asserted).
func ParseTransfer(fn string, caller, recipient []byte, args [][]byte, senderSide bool) (*Transfer, bool) {
	t := &Transfer{Func: fn, Sender: senderSide}
	switch fn {
	case vmcommon.BuiltInFunctionESDTTransfer:
		if len(args) < 2 {
			return nil, false
		}
		t.Dest = recipient
		t.Items = []Item{{Tok: string(args[0]), Qty: ArgBig(args[1])}}
		t.MinArgs = 2
	case vmcommon.BuiltInFunctionESDTNFTTransfer:
		if len(args) < 4 {
			return nil, false
		}
		t.MinArgs = 4
		it := Item{Tok: string(args[0]), Nonce: ArgUint64(args[1]), Qty: ArgBig(args[2])}
		if senderSide {
			t.Dest = args[3]
		} else {
			t.Dest = recipient
			it.Payload = args[3]
			e, err := DecodeToken(args[3])
			if err != nil || e.Value == nil {
				return nil, false
			}
			it.Qty = new(big.Int).Set(e.Value)
		}
		t.Items = []Item{it}
	case vmcommon.BuiltInFunctionMultiESDTNFTTransfer:
		start := 1
		if senderSide {
			start = 2
		}
		if len(args) < start+3 {
			return nil, false
		}
		// the function reads the low 64 bits of the count (a count of k*2^64 + n names n entries)
		cntU := ArgUint64(args[start-1])
		if cntU == 0 || cntU > uint64(len(args)) {
			return nil, false
		}
		k := int(cntU)
		if len(args) < start+3*k {
			return nil, false
		}
		if senderSide {
			t.Dest = args[0]
		} else {
			t.Dest = recipient
		}
		for i := 0; i < k; i++ {
			b := start + 3*i
			it := Item{Tok: string(args[b]), Nonce: ArgUint64(args[b+1]), Qty: ArgBig(args[b+2])}
			if !senderSide && it.Nonce > 0 {
				it.Payload = args[b+2]
				e, err := DecodeToken(args[b+2])
				if err != nil || e.Value == nil {
					return nil, false
				}
				it.Qty = new(big.Int).Set(e.Value)
			}
			t.Items = append(t.Items, it)
		}
		t.MinArgs = start + 3*k
	default:
		return nil, false
	}
	if len(args) > t.MinArgs {
		t.HasCall = true
		t.CallFn = args[t.MinArgs]
		t.CallArgs = args[t.MinArgs+1:]
	}
	return t, true
}

// LegTransfer parses the transfer a leg executed.
func LegTransfer(leg *world.Leg) (*Transfer, bool) {
	if leg.Input == nil || !world.TransferFuncs[leg.Func] {
		return nil, false
	}
	in := leg.Input
	sender := leg.SndLocal
	if leg.Func != vmcommon.BuiltInFunctionESDTTransfer {
		sender = bytes.Equal(in.CallerAddr, in.RecipientAddr)
	}
	return ParseTransfer(leg.Func, in.CallerAddr, in.RecipientAddr, in.Arguments, sender)
}

// MsgCarried is the quantity per storage-key suffix an in-flight message carries (empty for
// non-transfer messages and for messages the reference cannot read).
func MsgCarried(m world.Msg) map[string]*big.Int {
	out := map[string]*big.Int{}
	fn, args, ok := SplitData(m.Data)
	if !ok || !world.TransferFuncs[fn] {
		return out
	}
	t, ok := ParseTransfer(fn, m.From, m.To, args, false)
	if !ok {
		return out
	}
	for _, it := range t.Items {
		AddTo(out, it.Suffix(), it.Qty)
	}
	return out
}

// Supply is, per storage-key suffix, the sum over all non-system accounts plus all undelivered
// (in-flight and stuck) messages.
func Supply(w *world.World) map[string]*big.Int {
	out := map[string]*big.Int{}
	for k, v := range Balances(w) {
		_, suf := SplitBalKey(k)
		AddTo(out, suf, v)
	}
	for _, m := range w.Inflight {
		for s, q := range MsgCarried(m) {
			AddTo(out, s, q)
		}
	}
	for _, m := range w.Stuck {
		for s, q := range MsgCarried(m) {
			AddTo(out, s, q)
		}
	}
	return out
}

// ExpectedDelta is the balance change a *successful* leg must cause, per (account, key suffix),
// and the expected change of total supply per suffix. known=false means the reference does not
// define the effect of this call shape (nothing is asserted then).
func ExpectedDelta(leg *world.Leg) (delta map[string]*big.Int, known bool) {
	d := map[string]*big.Int{}
	in := leg.Input
	if in == nil {
		return d, false
	}
	args := in.Arguments
	neg := func(x *big.Int) *big.Int { return new(big.Int).Neg(x) }
	switch leg.Func {
	case vmcommon.BuiltInFunctionESDTTransfer, vmcommon.BuiltInFunctionESDTNFTTransfer, vmcommon.BuiltInFunctionMultiESDTNFTTransfer:
		t, ok := LegTransfer(leg)
		if !ok {
			return d, false
		}
		if t.Sender {
			destLocal := false
			if leg.Func == vmcommon.BuiltInFunctionESDTTransfer {
				destLocal = leg.DstLocal
			} else {
				destLocal = len(t.Dest) == 32 && leg.Pre.ShardOf(t.Dest) == leg.Shard
			}
			for _, it := range t.Items {
				AddTo(d, BalKey(in.CallerAddr, it.Suffix()), neg(it.Qty))
				if destLocal {
					AddTo(d, BalKey(t.Dest, it.Suffix()), it.Qty)
				}
			}
		} else {
			for _, it := range t.Items {
				AddTo(d, BalKey(t.Dest, it.Suffix()), it.Qty)
			}
		}
		return d, true
	case vmcommon.BuiltInFunctionESDTBurn, vmcommon.BuiltInFunctionESDTLocalBurn:
		if len(args) < 2 {
			return d, false
		}
		AddTo(d, BalKey(in.CallerAddr, string(args[0])), neg(ArgBig(args[1])))
		return d, true
	case vmcommon.BuiltInFunctionESDTLocalMint:
		if len(args) < 2 {
			return d, false
		}
		AddTo(d, BalKey(in.CallerAddr, string(args[0])), ArgBig(args[1]))
		return d, true
	case vmcommon.BuiltInFunctionESDTNFTCreate:
		if len(args) < 2 || leg.Out == nil || len(leg.Out.ReturnData) == 0 {
			return d, false
		}
		n := new(big.Int).SetBytes(leg.Out.ReturnData[0])
		if !n.IsUint64() {
			return d, false
		}
		AddTo(d, BalKey(in.CallerAddr, string(args[0])+NonceSuffix(n.Uint64())), ArgBig(args[1]))
		return d, true
	case vmcommon.BuiltInFunctionESDTNFTAddQuantity:
		if len(args) < 3 {
			return d, false
		}
		AddTo(d, BalKey(in.CallerAddr, string(args[0])+NonceSuffix(ArgUint64(args[1]))), ArgBig(args[2]))
		return d, true
	case vmcommon.BuiltInFunctionESDTNFTBurn:
		if len(args) < 3 {
			return d, false
		}
		AddTo(d, BalKey(in.CallerAddr, string(args[0])+NonceSuffix(ArgUint64(args[1]))), neg(ArgBig(args[2])))
		return d, true
	case vmcommon.BuiltInFunctionESDTWipe:
		if len(args) < 1 {
			return d, false
		}
		acc := leg.Pre.Get(in.RecipientAddr)
		AddTo(d, BalKey(in.RecipientAddr, string(args[0])), neg(Held(acc, string(args[0]))))
		return d, true
	}
	// every other built-in function leaves every balance unchanged
	return d, true
}

// SupplyDelta projects an account-level delta onto key suffixes.
func SupplyDelta(d map[string]*big.Int) map[string]*big.Int {
	out := map[string]*big.Int{}
	for k, v := range d {
		_, suf := SplitBalKey(k)
		AddTo(out, suf, v)
	}
	return out
}

// Exempt is the payability exemption of C09: an attached call, a callback or transfer-and-execute
// call type, or the ESDT system contract as caller.
func Exempt(in *vmcommon.ContractCallInput, minArgs int) bool {
	if in.CallType == vmcommon.AsynchronousCallBack || in.CallType == vmcommon.ESDTTransferAndExecute {
		return true
	}
	if bytes.Equal(in.CallerAddr, vmcommon.ESDTSCAddress) {
		return true
	}
	return len(in.Arguments) > minArgs
}
