// Package explore is engine E1: explicit-state breadth-first search over real built-in calls.
package explore

import (
	"fmt"
	"sort"
	"sync"
	"sync/atomic"
	"time"

	"verif/engine/world"
)

// Violation is one property violation found on one transition or state.
type Violation struct {
	Property string         `json:"property"`
	Clause   string         `json:"clause"`
	Sig      string         `json:"signature"` // structural signature (function, side, clause, input class)
	Detail   string         `json:"detail"`
	Profile  string         `json:"profile"`
	Seed     string         `json:"seed"`
	History  []world.Action `json:"-"`
	Depth    int            `json:"depth"`
}

// Ctx is handed to oracles; it collects violations and outcome classes for one worker.
type Ctx struct {
	Env     *world.Env
	Profile *Profile
	node    *node
	act     *world.Action
	viol    map[string]*Violation
	classes map[string]int64
	Scratch map[string]interface{}
}

// Report records a violation (deduplicated by signature, keeping the shortest history).
func (c *Ctx) Report(property, clause, sig, detail string) {
	full := property + "/" + clause + "/" + sig
	depth := 0
	if c.node != nil {
		depth = c.node.depth
	}
	if c.act != nil {
		depth++
	}
	if old, ok := c.viol[full]; ok && old.Depth <= depth {
		return
	}
	v := &Violation{Property: property, Clause: clause, Sig: sig, Detail: detail, Profile: c.Profile.Name, Depth: depth}
	if c.node != nil {
		v.Seed = c.node.seedName()
		v.History = c.node.history()
	}
	if c.act != nil {
		v.History = append(v.History, *c.act)
	}
	c.viol[full] = v
}

// Class counts an outcome class (used for the non-vacuity self-check and the evidence).
func (c *Ctx) Class(name string) { c.classes[name]++ }

// Oracle is a property checker attached to a search.
type Oracle interface {
	// Leg is called for every executed leg of every transition.
	Leg(c *Ctx, leg *world.Leg)
	// State is called once for every newly discovered state.
	State(c *Ctx, w *world.World)
}

// SeedState is a BFS root.
type SeedState struct {
	Name string
	W    *world.World
	// Legs are the executions that built the seed (the oracles are applied to them too); Failed is
	// non-empty when a construction step that has to succeed did not.
	Legs   []*world.Leg
	Failed string
}

// Profile describes one search.
type Profile struct {
	Name      string
	EnvCfg    world.EnvConfig
	Seeds     func(env *world.Env) []SeedState
	Menu      func(w *world.World) []world.Action
	Depth     int
	WithGhost bool
	Oracles   []Oracle
	MaxTrans  int64 // cap on transitions (0 = none)
	// MaxStates caps the visited set, MaxFrontier the number of stored (encoded) states of one
	// level (0 = defaults). When a cap is hit the level in progress is still checked completely
	// (every new state hashed and examined), but the search does not go deeper; the result says
	// exhaustive:false and names the last fully expanded depth.
	MaxStates   int64
	MaxFrontier int64
	Deadline    time.Duration // internal time cap (0 = none); hitting it ends the run with Exhaustive=false
	Workers     int
	// ContinueRoots / ContinueDepth: a deterministic beam beyond the exhaustive bound. Of the new
	// states of the last exhaustive level, and of every further level, the ContinueRoots with the
	// smallest hashes are expanded (every action of the menu), for ContinueDepth more levels. The
	// histories reached are longer than the exhaustive bound covers; the beam is a supplement and
	// never part of the exhaustive-within-bound claim.
	ContinueRoots int
	ContinueDepth int
	// MaxFrontierBytes bounds the encoded states kept for the next level (default 6 GiB)
	MaxFrontierBytes int64
	// PostStep, if set, is called on every transition after the oracles (differential checks).
	PostStep func(c *Ctx, pre *world.World, act world.Action, post *world.World, legs []*world.Leg)
}

type node struct {
	parent *node
	act    world.Action
	depth  int
	seed   string
	w      *world.World // only for seeds; other nodes keep the compact encoding
	enc    []byte
	meta   map[string]bool
	h      [32]byte
}

func (n *node) world() *world.World {
	if n.w != nil {
		return n.w
	}
	return world.Decode(n.enc, n.meta)
}

func (n *node) seedName() string {
	for n.parent != nil {
		n = n.parent
	}
	return n.seed
}

func (n *node) history() []world.Action {
	var h []world.Action
	for x := n; x.parent != nil; x = x.parent {
		h = append(h, x.act)
	}
	for i, j := 0, len(h)-1; i < j; i, j = i+1, j-1 {
		h[i], h[j] = h[j], h[i]
	}
	return h
}

// Result is what a search covered.
type Result struct {
	States         int64
	Transitions    int64
	Legs           int64
	DepthCompleted int
	Exhaustive     bool
	CapHit         string
	Violations     []*Violation
	Classes        map[string]int64
	PerDepthStates []int64
	Samples        [][]string
	Wall           time.Duration
	SeedFailures   []string
	// continuation phase
	ContinueRoots          int
	ContinueDepthCompleted int
	ContinueStates         int64
}

type visited struct {
	mu [64]sync.Mutex
	m  [64]map[[32]byte]struct{}
}

func newVisited() *visited {
	v := &visited{}
	for i := range v.m {
		v.m[i] = map[[32]byte]struct{}{}
	}
	return v
}

func (v *visited) add(h [32]byte) bool {
	i := h[0] & 63
	v.mu[i].Lock()
	defer v.mu[i].Unlock()
	if _, ok := v.m[i][h]; ok {
		return false
	}
	v.m[i][h] = struct{}{}
	return true
}

// Describe renders an action with the given address namer.
var Describe = func(a world.Action) string { return fmt.Sprintf("%+v", a) }

// Run performs the search.
func Run(p *Profile) (*Result, error) {
	start := time.Now()
	workers := p.Workers
	if workers == 0 {
		workers = 16
	}
	envs := make([]*world.Env, workers)
	ctxs := make([]*Ctx, workers)
	for i := range envs {
		e, err := world.NewEnv(p.EnvCfg)
		if err != nil {
			return nil, err
		}
		envs[i] = e
		ctxs[i] = &Ctx{Env: e, Profile: p, viol: map[string]*Violation{}, classes: map[string]int64{}, Scratch: map[string]interface{}{}}
	}
	res := &Result{Exhaustive: true, Classes: map[string]int64{}}
	vis := newVisited()
	var frontier []*node
	for _, s := range p.Seeds(envs[0]) {
		{
			c := ctxs[0]
			c.node, c.act = &node{seed: s.Name + " (construction)"}, nil
			for _, l := range s.Legs {
				for _, o := range p.Oracles {
					o.Leg(c, l)
				}
				if l.Post != nil && l.Post != l.Pre {
					for _, o := range p.Oracles {
						o.State(c, l.Post)
					}
				}
			}
		}
		if s.Failed != "" {
			res.SeedFailures = append(res.SeedFailures, s.Name+": "+s.Failed)
			continue
		}
		n := &node{seed: s.Name, w: s.W, h: s.W.Hash(p.WithGhost)}
		if vis.add(n.h) {
			frontier = append(frontier, n)
			res.States++
			c := ctxs[0]
			c.node, c.act = n, nil
			for _, o := range p.Oracles {
				o.State(c, s.W)
			}
		}
	}
	res.PerDepthStates = append(res.PerDepthStates, int64(len(frontier)))
	var trans, legsN int64
	var stop, noDeeper int32
	maxStates, maxFrontier := p.MaxStates, p.MaxFrontier
	if maxStates == 0 {
		maxStates = 40_000_000
	}
	if maxFrontier == 0 {
		maxFrontier = 4_000_000
	}
	maxFrontierBytes := p.MaxFrontierBytes
	if maxFrontierBytes == 0 {
		maxFrontierBytes = 6 << 30
	}
	totalDepth := p.Depth
	if p.ContinueRoots > 0 {
		totalDepth += p.ContinueDepth
	}
	for depth := 0; depth < totalDepth && len(frontier) > 0; depth++ {
		next := make([][]*node, workers)
		var nextBytes int64
		// the last exhaustive level keeps only the candidates for continuation roots
		selecting := p.ContinueRoots > 0 && depth+1 >= p.Depth && depth+1 < totalDepth
		roots := make([][]*node, workers)
		var newStates int64
		statesSoFar := res.States
		var wg sync.WaitGroup
		var cursor int64
		for wi := 0; wi < workers; wi++ {
			wg.Add(1)
			go func(wi int) {
				defer wg.Done()
				env, c := envs[wi], ctxs[wi]
				for {
					i := int(atomic.AddInt64(&cursor, 1)) - 1
					if i >= len(frontier) || atomic.LoadInt32(&stop) != 0 {
						return
					}
					n := frontier[i]
					nw := n.world()
					for _, act := range p.Menu(nw) {
						if p.MaxTrans > 0 && atomic.LoadInt64(&trans) >= p.MaxTrans {
							atomic.StoreInt32(&stop, 1)
							return
						}
						if p.Deadline > 0 && time.Since(start) > p.Deadline {
							atomic.StoreInt32(&stop, 2)
							return
						}
						act := act
						post, legs := env.Step(nw, act)
						atomic.AddInt64(&trans, 1)
						atomic.AddInt64(&legsN, int64(len(legs)))
						c.node, c.act = n, &act
						for _, l := range legs {
							cls := l.Side + ":" + l.Func + ":"
							if l.OK() {
								cls += "ok"
							} else if l.Panic != nil {
								cls += "panic"
							} else {
								cls += "err"
							}
							c.classes[cls]++
							for _, o := range p.Oracles {
								o.Leg(c, l)
							}
						}
						if p.PostStep != nil {
							p.PostStep(c, nw, act, post, legs)
						}
						if post == nw {
							continue
						}
						ph := post.Hash(p.WithGhost)
						if vis.add(ph) {
							if statesSoFar+atomic.LoadInt64(&newStates) >= maxStates {
								atomic.StoreInt32(&stop, 3)
							}
							nn := &node{parent: n, act: act, depth: n.depth + 1, h: ph}
							c.node, c.act = nn, nil
							for _, o := range p.Oracles {
								o.State(c, post)
							}
							ns := atomic.AddInt64(&newStates, 1)
							if selecting {
								// keep the ContinueRoots smallest hashes seen by this worker
								r := roots[wi]
								if len(r) < p.ContinueRoots || lessHash(ph, r[len(r)-1].h) {
									nn.enc, nn.meta = post.Encode(), post.Meta
									pos := sort.Search(len(r), func(i int) bool { return lessHash(ph, r[i].h) })
									r = append(r, nil)
									copy(r[pos+1:], r[pos:])
									r[pos] = nn
									if len(r) > p.ContinueRoots {
										r[len(r)-1].enc = nil
										r = r[:len(r)-1]
									}
									roots[wi] = r
								}
							} else if depth+1 < totalDepth && atomic.LoadInt32(&noDeeper) == 0 {
								if ns > maxFrontier || statesSoFar+ns > maxStates || atomic.LoadInt64(&nextBytes) > maxFrontierBytes {
									atomic.StoreInt32(&noDeeper, 1)
								} else {
									nn.enc, nn.meta = post.Encode(), post.Meta
									atomic.AddInt64(&nextBytes, int64(len(nn.enc))+160)
									next[wi] = append(next[wi], nn)
								}
							}
						}
					}
					n.w, n.enc = nil, nil // expanded: release the state, keep the history link
				}
			}(wi)
		}
		wg.Wait()
		res.States += newStates
		res.PerDepthStates = append(res.PerDepthStates, newStates)
		if s := atomic.LoadInt32(&stop); s != 0 {
			res.Exhaustive = false
			if s == 1 {
				res.CapHit = fmt.Sprintf("transition cap %d hit while expanding depth %d", p.MaxTrans, depth)
			} else if s == 3 {
				res.CapHit = fmt.Sprintf("state cap %d hit while expanding depth %d", maxStates, depth)
			} else {
				res.CapHit = fmt.Sprintf("time cap %s hit while expanding depth %d", p.Deadline, depth)
			}
			break
		}
		if depth < p.Depth {
			res.DepthCompleted = depth + 1
		} else {
			res.ContinueDepthCompleted = depth + 1 - p.Depth
			res.ContinueStates += newStates
		}
		if selecting {
			var all []*node
			for _, r := range roots {
				all = append(all, r...)
			}
			sort.Slice(all, func(i, j int) bool { return lessHash(all[i].h, all[j].h) })
			if len(all) > p.ContinueRoots {
				all = all[:p.ContinueRoots]
			}
			if depth+1 == p.Depth {
				res.ContinueRoots = len(all)
			}
			frontier = all
			continue
		}
		if atomic.LoadInt32(&noDeeper) != 0 && depth+1 < totalDepth {
			res.Exhaustive = false
			res.CapHit = fmt.Sprintf("state/frontier cap (%d states, %d per level, %d MiB of stored frontier) hit: the %d new states of depth %d were all checked but not expanded", maxStates, maxFrontier, maxFrontierBytes>>20, newStates, depth+1)
			for _, l := range next {
				for _, nn := range l {
					nn.enc = nil
				}
			}
			break
		}
		frontier = frontier[:0]
		for _, l := range next {
			frontier = append(frontier, l...)
		}
		// deterministic order of the next level regardless of worker timing
		sort.Slice(frontier, func(i, j int) bool {
			hi, hj := frontier[i].h, frontier[j].h
			for k := range hi {
				if hi[k] != hj[k] {
					return hi[k] < hj[k]
				}
			}
			return false
		})
		if depth < 3 && len(frontier) > 0 && len(res.Samples) < 4 {
			h := frontier[len(frontier)/2].history()
			var s []string
			for _, a := range h {
				s = append(s, Describe(a))
			}
			res.Samples = append(res.Samples, s)
		}
	}
	res.Transitions = trans
	res.Legs = legsN
	merged := map[string]*Violation{}
	for _, c := range ctxs {
		for k, v := range c.classes {
			res.Classes[k] += v
		}
		for k, v := range c.viol {
			if old, ok := merged[k]; !ok || v.Depth < old.Depth || (v.Depth == old.Depth && v.Detail < old.Detail) {
				merged[k] = v
			}
		}
	}
	keys := make([]string, 0, len(merged))
	for k := range merged {
		keys = append(keys, k)
	}
	sort.Strings(keys)
	for _, k := range keys {
		res.Violations = append(res.Violations, merged[k])
	}
	sort.SliceStable(res.Violations, func(i, j int) bool { return res.Violations[i].Depth < res.Violations[j].Depth })
	res.Wall = time.Since(start)
	return res, nil
}

func lessHash(a, b [32]byte) bool {
	for k := range a {
		if a[k] != b[k] {
			return a[k] < b[k]
		}
	}
	return false
}

// NewCtx returns a stand-alone oracle context (used by replays and single-step enumerations).
func NewCtx(env *world.Env, p *Profile) *Ctx {
	return &Ctx{Env: env, Profile: p, viol: map[string]*Violation{}, classes: map[string]int64{}, Scratch: map[string]interface{}{}}
}

// SetPosition tells the context which history is being extended (for violation records).
func (c *Ctx) SetPosition(seed string, history []world.Action, act *world.Action) {
	var n *node = &node{seed: seed}
	for _, a := range history {
		n = &node{parent: n, act: a, depth: n.depth + 1}
	}
	c.node, c.act = n, act
}

// Violations returns the violations collected so far, sorted by signature.
func (c *Ctx) Violations() []*Violation {
	keys := make([]string, 0, len(c.viol))
	for k := range c.viol {
		keys = append(keys, k)
	}
	sort.Strings(keys)
	var out []*Violation
	for _, k := range keys {
		out = append(out, c.viol[k])
	}
	return out
}

// Classes returns the outcome classes counted so far.
func (c *Ctx) Classes() map[string]int64 { return c.classes }

// Depth is the depth of the state or transition currently being examined.
func (c *Ctx) Depth() int {
	d := 0
	if c.node != nil {
		d = c.node.depth
	}
	if c.act != nil {
		d++
	}
	return d
}
