//go:build e4

// Package vsched is the cooperative scheduler of engine E4. It is compiled (through go build
// -overlay) as a virtual package inside the elrond-vm-common module, so that the rewritten
// sync / sync/atomic shims of the library can reach it. Only one scheduled thread runs at any
// time; every hooked operation first calls Point, which parks the caller and lets the explorer
// decide who runs next. Blocked operations are disabled rather than spun.
package vsched

import (
	"fmt"
	"runtime/debug"
	"sort"
)

// SortedKeys fixes the iteration order of a key set. Go randomises map iteration and offers no
// seam to enumerate it; the overlay routes the factory's broadcast loop through this function so
// that an execution is a function of the schedule alone (any order is a legal one).
func SortedKeys(m map[string]struct{}) []string {
	out := make([]string, 0, len(m))
	for k := range m {
		out = append(out, k)
	}
	sort.Strings(out)
	return out
}

// Op is a pending operation of a parked thread.
type Op struct {
	Kind    string
	Obj     interface{}
	Enabled func() bool // nil = always enabled
}

type thread struct {
	id      int
	wake    chan struct{}
	pending Op
	started bool
	done    bool
	panic   interface{}
	stack   string
}

// PointInfo describes one scheduling decision of an execution.
type PointInfo struct {
	Enabled             []int // canonical order: running thread first if still enabled, then ascending ids
	Chosen              int   // index into Enabled
	RunningStillEnabled bool
	Kinds               []string
}

// Result is one complete execution.
type Result struct {
	Points   []PointInfo
	Choices  []int
	Deadlock bool
	Blocked  []string // description of the blocked threads on deadlock
	Panics   []string
	Diverged bool // a prefix choice was out of range (harness error)
	Steps    int
}

type sched struct {
	threads []*thread
	yield   chan struct{}
	cur     int
	active  bool
	clock   int64
}

var s *sched

// Active reports whether an exploration is running (otherwise the shims pass through).
func Active() bool { return s != nil && s.active }

// Now is the logical clock (advanced at every scheduling point and by Tick).
func Now() int64 {
	if s == nil {
		return 0
	}
	return s.clock
}

// Tick advances the logical clock and returns the new value (for call/return timestamps).
func Tick() int64 {
	if s == nil {
		return 0
	}
	s.clock++
	return s.clock
}

// Current is the id of the running scheduled thread (-1 outside an exploration).
func Current() int {
	if !Active() {
		return -1
	}
	return s.cur
}

// Point parks the calling scheduled thread with its pending operation; it returns when the
// explorer has chosen this thread again and the operation is enabled. Outside an exploration it
// returns immediately.
func Point(op Op) {
	if !Active() {
		return
	}
	t := s.threads[s.cur]
	t.pending = op
	s.yield <- struct{}{}
	<-t.wake
}

// MaxSteps bounds one execution (a livelock shows up as hitting it).
var MaxSteps = 20000

// Run executes bodies as scheduled threads. choose(i, info) returns the index into info.Enabled
// for the i-th decision. It returns the complete execution.
func Run(bodies []func(), choose func(i int, p *PointInfo) int) *Result {
	sc := &sched{yield: make(chan struct{}), active: true, cur: -1}
	s = sc
	res := &Result{}
	for i, b := range bodies {
		t := &thread{id: i, wake: make(chan struct{}), pending: Op{Kind: "start"}}
		sc.threads = append(sc.threads, t)
		go func(t *thread, b func()) {
			<-t.wake
			defer func() {
				if r := recover(); r != nil {
					t.panic = r
					t.stack = string(debug.Stack())
				}
				t.done = true
				sc.yield <- struct{}{}
			}()
			b()
		}(t, b)
	}
	running := -1
	for {
		var enabled []int
		var kinds []string
		runningEnabled := false
		undone := 0
		for _, t := range sc.threads {
			if t.done {
				continue
			}
			undone++
			if t.pending.Enabled == nil || t.pending.Enabled() {
				if t.id == running {
					runningEnabled = true
				} else {
					enabled = append(enabled, t.id)
				}
			}
		}
		if runningEnabled {
			enabled = append([]int{running}, enabled...)
		}
		if undone == 0 {
			break
		}
		if len(enabled) == 0 {
			res.Deadlock = true
			for _, t := range sc.threads {
				if !t.done {
					res.Blocked = append(res.Blocked, fmt.Sprintf("thread %d blocked at %s", t.id, t.pending.Kind))
				}
			}
			break
		}
		for _, id := range enabled {
			kinds = append(kinds, sc.threads[id].pending.Kind)
		}
		p := PointInfo{Enabled: enabled, RunningStillEnabled: runningEnabled, Kinds: kinds}
		c := choose(len(res.Points), &p)
		if c < 0 || c >= len(enabled) {
			res.Diverged = true
			break
		}
		p.Chosen = c
		res.Points = append(res.Points, p)
		res.Choices = append(res.Choices, c)
		running = enabled[c]
		sc.cur = running
		sc.clock++
		sc.threads[running].wake <- struct{}{}
		<-sc.yield
		res.Steps++
		if res.Steps > MaxSteps {
			res.Deadlock = true
			res.Blocked = append(res.Blocked, "step bound hit (livelock?)")
			break
		}
	}
	for _, t := range sc.threads {
		if t.panic != nil {
			res.Panics = append(res.Panics, fmt.Sprintf("thread %d: %v\n%s", t.id, t.panic, t.stack))
		}
	}
	sc.active = false
	// threads still parked (deadlock / divergence) are abandoned; they hold no real resources
	s = nil
	return res
}

// Explorer is the deviation-bounded stateless DFS of the brief: explore everything with at most
// Bound preemptions.
type Explorer struct {
	Bound      int
	Executions int64
	MaxExec    int64 // cap (0 = none); hitting it sets Capped
	Capped     bool
	Diverged   int64                                                      // executions whose prefix could not be replayed (uncontrolled nondeterminism)
	Run        func(choose func(i int, p *PointInfo) int) (*Result, bool) // runs one execution; false stops the exploration
}

func preemptionsBefore(r *Result, i int) int {
	n := 0
	for j := 0; j < i; j++ {
		if r.Points[j].RunningStillEnabled && r.Points[j].Chosen != 0 {
			n++
		}
	}
	return n
}

// Explore runs the DFS from the given prefix.
func (e *Explorer) Explore(prefix []int) bool {
	if e.MaxExec > 0 && e.Executions >= e.MaxExec {
		e.Capped = true
		return true
	}
	e.Executions++
	r, cont := e.Run(func(i int, p *PointInfo) int {
		if i < len(prefix) {
			return prefix[i]
		}
		return 0
	})
	if !cont {
		return false
	}
	if r.Diverged {
		e.Diverged++
		return true
	}
	for i := len(prefix); i < len(r.Points); i++ {
		p := r.Points[i]
		cost := preemptionsBefore(r, i)
		if p.RunningStillEnabled {
			cost++
		}
		if cost > e.Bound {
			continue
		}
		for alt := 1; alt < len(p.Enabled); alt++ {
			np := append(append([]int{}, r.Choices[:i]...), alt)
			if !e.Explore(np) {
				return false
			}
		}
	}
	return true
}
