//go:build e4

// Package vsync replaces "sync" inside the library under engine E4: an RWMutex with Go's
// semantics (a waiting writer blocks new readers) whose every operation is a scheduling point.
// Outside an exploration it is a plain, non-blocking state machine (single goroutine).
package vsync

import "github.com/ElrondNetwork/elrond-vm-common/vsched"

// RWMutex mirrors sync.RWMutex.
type RWMutex struct {
	writer         bool
	readers        int
	pendingWriters int
}

// Lock announces the writer (blocking new readers), then acquires when no reader/writer holds it.
func (m *RWMutex) Lock() {
	vsched.Point(vsched.Op{Kind: "Lock.announce", Obj: m})
	m.pendingWriters++
	vsched.Point(vsched.Op{Kind: "Lock", Obj: m, Enabled: func() bool { return !m.writer && m.readers == 0 }})
	if vsched.Active() || (!m.writer && m.readers == 0) {
		m.pendingWriters--
		m.writer = true
		return
	}
	panic("vsync: Lock of a held RWMutex outside an exploration (self-deadlock)")
}

// Unlock releases the write lock.
func (m *RWMutex) Unlock() {
	vsched.Point(vsched.Op{Kind: "Unlock", Obj: m})
	if !m.writer {
		panic("sync: Unlock of unlocked RWMutex")
	}
	m.writer = false
}

// RLock acquires a read lock; it blocks while a writer holds or waits for the lock.
func (m *RWMutex) RLock() {
	vsched.Point(vsched.Op{Kind: "RLock", Obj: m, Enabled: func() bool { return !m.writer && m.pendingWriters == 0 }})
	if vsched.Active() || (!m.writer && m.pendingWriters == 0) {
		m.readers++
		return
	}
	panic("vsync: RLock of a write-held RWMutex outside an exploration (self-deadlock)")
}

// RUnlock releases a read lock.
func (m *RWMutex) RUnlock() {
	vsched.Point(vsched.Op{Kind: "RUnlock", Obj: m})
	if m.readers <= 0 {
		panic("sync: RUnlock of unlocked RWMutex")
	}
	m.readers--
}

// Mutex mirrors sync.Mutex.
type Mutex struct{ held bool }

// Lock acquires the mutex.
func (m *Mutex) Lock() {
	vsched.Point(vsched.Op{Kind: "Mutex.Lock", Obj: m, Enabled: func() bool { return !m.held }})
	m.held = true
}

// Unlock releases the mutex.
func (m *Mutex) Unlock() {
	vsched.Point(vsched.Op{Kind: "Mutex.Unlock", Obj: m})
	m.held = false
}
