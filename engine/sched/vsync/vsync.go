//go:build e4

// Package vsync replaces "sync" inside the library under engine E4: an RWMutex with Go's
// semantics (a waiting writer blocks new readers) whose every operation is a scheduling point.
// Outside an exploration it is a plain, non-blocking state machine (single goroutine).
package vsync

import "github.com/ElrondNetwork/elrond-vm-common/vsched"

// RWMutex mirrors sync.RWMutex.
type RWMutex struct {
	writer         bool
	readers        int
	pendingWriters int
}

// Lock announces the writer (blocking new readers), then acquires when no reader/writer holds it.
func (m *RWMutex) Lock() {
	vsched.Point(vsched.Op{Kind: "Lock.announce", Obj: m})
	m.pendingWriters++
	vsched.Point(vsched.Op{Kind: "Lock", Obj: m, Enabled: func() bool { return !m.writer && m.readers == 0 }})
	if vsched.Active() || (!m.writer && m.readers == 0) {
		m.pendingWriters--
		m.writer = true
		return
	}
	panic("vsync: Lock of a held RWMutex outside an exploration (self-deadlock)")
}

// Unlock releases the write lock.
func (m *RWMutex) Unlock() {
	vsched.Point(vsched.Op{Kind: "Unlock", Obj: m})
	if !m.writer {
		panic("sync: Unlock of unlocked RWMutex")
	}
	m.writer = false
}

// RLock acquires a read lock; it blocks while a writer holds or waits for the lock.
func (m *RWMutex) RLock() {
	vsched.Point(vsched.Op{Kind: "RLock", Obj: m, Enabled: func() bool { return !m.writer && m.pendingWriters == 0 }})
	if vsched.Active() || (!m.writer && m.pendingWriters == 0) {
		m.readers++
		return
	}
	panic("vsync: RLock of a write-held RWMutex outside an exploration (self-deadlock)")
}

// RUnlock releases a read lock.
func (m *RWMutex) RUnlock() {
	vsched.Point(vsched.Op{Kind: "RUnlock", Obj: m})
	if m.readers <= 0 {
		panic("sync: RUnlock of unlocked RWMutex")
	}
	m.readers--
}

// Mutex mirrors sync.Mutex.
type Mutex struct{ held bool }

// Lock acquires the mutex.
func (m *Mutex) Lock() {
	vsched.Point(vsched.Op{Kind: "Mutex.Lock", Obj: m, Enabled: func() bool { return !m.held }})
	m.held = true
}

// Unlock releases the mutex.
func (m *Mutex) Unlock() {
	vsched.Point(vsched.Op{Kind: "Mutex.Unlock", Obj: m})
	m.held = false
}

// TryLock mirrors sync.Mutex.TryLock.
func (m *Mutex) TryLock() bool {
	vsched.Point(vsched.Op{Kind: "Mutex.TryLock", Obj: m})
	if m.held {
		return false
	}
	m.held = true
	return true
}

// Locker mirrors sync.Locker.
type Locker interface {
	Lock()
	Unlock()
}

// RLocker mirrors (*sync.RWMutex).RLocker.
func (m *RWMutex) RLocker() Locker { return (*rlocker)(m) }

type rlocker RWMutex

func (r *rlocker) Lock()   { (*RWMutex)(r).RLock() }
func (r *rlocker) Unlock() { (*RWMutex)(r).RUnlock() }

// Map mirrors sync.Map: every operation is one scheduling point and atomic in between (only one
// thread runs at a time under the cooperative scheduler).
type Map struct {
	m     map[interface{}]interface{}
	order []interface{}
}

func (m *Map) point(kind string) { vsched.Point(vsched.Op{Kind: "Map." + kind, Obj: m}) }

// Load mirrors sync.Map.Load.
func (m *Map) Load(key interface{}) (interface{}, bool) {
	m.point("Load")
	v, ok := m.m[key]
	return v, ok
}

// Store mirrors sync.Map.Store.
func (m *Map) Store(key, value interface{}) {
	m.point("Store")
	if m.m == nil {
		m.m = map[interface{}]interface{}{}
	}
	if _, ok := m.m[key]; !ok {
		m.order = append(m.order, key)
	}
	m.m[key] = value
}

// LoadOrStore mirrors sync.Map.LoadOrStore.
func (m *Map) LoadOrStore(key, value interface{}) (interface{}, bool) {
	m.point("LoadOrStore")
	if v, ok := m.m[key]; ok {
		return v, true
	}
	if m.m == nil {
		m.m = map[interface{}]interface{}{}
	}
	m.order = append(m.order, key)
	m.m[key] = value
	return value, false
}

// LoadAndDelete mirrors sync.Map.LoadAndDelete.
func (m *Map) LoadAndDelete(key interface{}) (interface{}, bool) {
	m.point("LoadAndDelete")
	v, ok := m.m[key]
	if ok {
		m.remove(key)
	}
	return v, ok
}

// Delete mirrors sync.Map.Delete.
func (m *Map) Delete(key interface{}) {
	m.point("Delete")
	if _, ok := m.m[key]; ok {
		m.remove(key)
	}
}

func (m *Map) remove(key interface{}) {
	delete(m.m, key)
	for i, k := range m.order {
		if k == key {
			m.order = append(m.order[:i:i], m.order[i+1:]...)
			break
		}
	}
}

// Range mirrors sync.Map.Range (insertion order: one fixed order is explored).
func (m *Map) Range(f func(key, value interface{}) bool) {
	m.point("Range")
	keys := append([]interface{}{}, m.order...)
	for _, k := range keys {
		v, ok := m.m[k]
		if !ok {
			continue
		}
		if !f(k, v) {
			return
		}
	}
}

// Once mirrors sync.Once.
type Once struct {
	done    bool
	running bool
}

// Do mirrors sync.Once.Do: later callers wait until the first call has returned.
func (o *Once) Do(f func()) {
	vsched.Point(vsched.Op{Kind: "Once.Do", Obj: o, Enabled: func() bool { return !o.running }})
	if o.done {
		return
	}
	o.running = true
	defer func() { o.running, o.done = false, true }()
	f()
}

// WaitGroup mirrors sync.WaitGroup.
type WaitGroup struct{ n int }

// Add mirrors sync.WaitGroup.Add.
func (w *WaitGroup) Add(d int) {
	vsched.Point(vsched.Op{Kind: "WaitGroup.Add", Obj: w})
	w.n += d
	if w.n < 0 {
		panic("sync: negative WaitGroup counter")
	}
}

// Done mirrors sync.WaitGroup.Done.
func (w *WaitGroup) Done() { w.Add(-1) }

// Wait mirrors sync.WaitGroup.Wait.
func (w *WaitGroup) Wait() {
	vsched.Point(vsched.Op{Kind: "WaitGroup.Wait", Obj: w, Enabled: func() bool { return w.n == 0 }})
}

// Pool mirrors sync.Pool (no reuse across threads is modelled: Get prefers what was Put).
type Pool struct {
	New   func() interface{}
	items []interface{}
}

// Get mirrors sync.Pool.Get.
func (p *Pool) Get() interface{} {
	vsched.Point(vsched.Op{Kind: "Pool.Get", Obj: p})
	if n := len(p.items); n > 0 {
		x := p.items[n-1]
		p.items = p.items[:n-1]
		return x
	}
	if p.New != nil {
		return p.New()
	}
	return nil
}

// Put mirrors sync.Pool.Put.
func (p *Pool) Put(x interface{}) {
	vsched.Point(vsched.Op{Kind: "Pool.Put", Obj: p})
	p.items = append(p.items, x)
}
