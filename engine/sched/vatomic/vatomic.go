//go:build e4

// Package vatomic replaces "sync/atomic" inside the library under engine E4: every operation is
// one scheduling point followed by a plain access (sequential consistency).
package vatomic

import "github.com/ElrondNetwork/elrond-vm-common/vsched"

func pt(kind string, obj interface{}) { vsched.Point(vsched.Op{Kind: kind, Obj: obj}) }

func StoreInt64(p *int64, v int64)          { pt("StoreInt64", p); *p = v }
func LoadInt64(p *int64) int64              { pt("LoadInt64", p); return *p }
func AddInt64(p *int64, d int64) int64      { pt("AddInt64", p); *p += d; return *p }
func SwapInt64(p *int64, v int64) int64     { pt("SwapInt64", p); o := *p; *p = v; return o }
func StoreUint32(p *uint32, v uint32)       { pt("StoreUint32", p); *p = v }
func LoadUint32(p *uint32) uint32           { pt("LoadUint32", p); return *p }
func SwapUint32(p *uint32, v uint32) uint32 { pt("SwapUint32", p); o := *p; *p = v; return o }
func AddUint32(p *uint32, d uint32) uint32  { pt("AddUint32", p); *p += d; return *p }
func StoreUint64(p *uint64, v uint64)       { pt("StoreUint64", p); *p = v }
func LoadUint64(p *uint64) uint64           { pt("LoadUint64", p); return *p }
func AddUint64(p *uint64, d uint64) uint64  { pt("AddUint64", p); *p += d; return *p }
func SwapUint64(p *uint64, v uint64) uint64 { pt("SwapUint64", p); o := *p; *p = v; return o }
func CompareAndSwapInt64(p *int64, o, n int64) bool {
	pt("CompareAndSwapInt64", p)
	if *p == o {
		*p = n
		return true
	}
	return false
}
func CompareAndSwapUint32(p *uint32, o, n uint32) bool {
	pt("CompareAndSwapUint32", p)
	if *p == o {
		*p = n
		return true
	}
	return false
}
func CompareAndSwapUint64(p *uint64, o, n uint64) bool {
	pt("CompareAndSwapUint64", p)
	if *p == o {
		*p = n
		return true
	}
	return false
}

// Value mirrors atomic.Value.
type Value struct{ v interface{} }

func (x *Value) Store(v interface{}) {
	if v == nil {
		panic("sync/atomic: store of nil value into Value")
	}
	pt("Value.Store", x)
	x.v = v
}
func (x *Value) Load() interface{} { pt("Value.Load", x); return x.v }

func StoreInt32(p *int32, v int32)      { pt("StoreInt32", p); *p = v }
func LoadInt32(p *int32) int32          { pt("LoadInt32", p); return *p }
func AddInt32(p *int32, d int32) int32  { pt("AddInt32", p); *p += d; return *p }
func SwapInt32(p *int32, v int32) int32 { pt("SwapInt32", p); o := *p; *p = v; return o }
func CompareAndSwapInt32(p *int32, o, n int32) bool {
	pt("CompareAndSwapInt32", p)
	if *p == o {
		*p = n
		return true
	}
	return false
}

// Swap mirrors atomic.Value.Swap.
func (x *Value) Swap(v interface{}) interface{} {
	pt("Value.Swap", x)
	o := x.v
	x.v = v
	return o
}

// CompareAndSwap mirrors atomic.Value.CompareAndSwap.
func (x *Value) CompareAndSwap(o, n interface{}) bool {
	pt("Value.CompareAndSwap", x)
	if x.v == o {
		x.v = n
		return true
	}
	return false
}

// Typed atomics (sync/atomic since Go 1.19).

type Int32 struct{ v int32 }

func (x *Int32) Load() int32                    { return LoadInt32(&x.v) }
func (x *Int32) Store(v int32)                  { StoreInt32(&x.v, v) }
func (x *Int32) Add(d int32) int32              { return AddInt32(&x.v, d) }
func (x *Int32) Swap(v int32) int32             { return SwapInt32(&x.v, v) }
func (x *Int32) CompareAndSwap(o, n int32) bool { return CompareAndSwapInt32(&x.v, o, n) }

type Int64 struct{ v int64 }

func (x *Int64) Load() int64                    { return LoadInt64(&x.v) }
func (x *Int64) Store(v int64)                  { StoreInt64(&x.v, v) }
func (x *Int64) Add(d int64) int64              { return AddInt64(&x.v, d) }
func (x *Int64) Swap(v int64) int64             { return SwapInt64(&x.v, v) }
func (x *Int64) CompareAndSwap(o, n int64) bool { return CompareAndSwapInt64(&x.v, o, n) }

type Uint32 struct{ v uint32 }

func (x *Uint32) Load() uint32                    { return LoadUint32(&x.v) }
func (x *Uint32) Store(v uint32)                  { StoreUint32(&x.v, v) }
func (x *Uint32) Add(d uint32) uint32             { return AddUint32(&x.v, d) }
func (x *Uint32) Swap(v uint32) uint32            { return SwapUint32(&x.v, v) }
func (x *Uint32) CompareAndSwap(o, n uint32) bool { return CompareAndSwapUint32(&x.v, o, n) }

type Uint64 struct{ v uint64 }

func (x *Uint64) Load() uint64                    { return LoadUint64(&x.v) }
func (x *Uint64) Store(v uint64)                  { StoreUint64(&x.v, v) }
func (x *Uint64) Add(d uint64) uint64             { return AddUint64(&x.v, d) }
func (x *Uint64) Swap(v uint64) uint64            { return SwapUint64(&x.v, v) }
func (x *Uint64) CompareAndSwap(o, n uint64) bool { return CompareAndSwapUint64(&x.v, o, n) }

type Bool struct{ v uint32 }

func (x *Bool) Load() bool { return LoadUint32(&x.v) != 0 }
func (x *Bool) Store(b bool) {
	if b {
		StoreUint32(&x.v, 1)
	} else {
		StoreUint32(&x.v, 0)
	}
}
func (x *Bool) Swap(b bool) bool {
	n := uint32(0)
	if b {
		n = 1
	}
	return SwapUint32(&x.v, n) != 0
}
func (x *Bool) CompareAndSwap(o, n bool) bool {
	ou, nu := uint32(0), uint32(0)
	if o {
		ou = 1
	}
	if n {
		nu = 1
	}
	return CompareAndSwapUint32(&x.v, ou, nu)
}
