//go:build e4

// Package vatomic replaces "sync/atomic" inside the library under engine E4: every operation is
// one scheduling point followed by a plain access (sequential consistency).
package vatomic

import "github.com/ElrondNetwork/elrond-vm-common/vsched"

func pt(kind string, obj interface{}) { vsched.Point(vsched.Op{Kind: kind, Obj: obj}) }

func StoreInt64(p *int64, v int64)          { pt("StoreInt64", p); *p = v }
func LoadInt64(p *int64) int64              { pt("LoadInt64", p); return *p }
func AddInt64(p *int64, d int64) int64      { pt("AddInt64", p); *p += d; return *p }
func SwapInt64(p *int64, v int64) int64     { pt("SwapInt64", p); o := *p; *p = v; return o }
func StoreUint32(p *uint32, v uint32)       { pt("StoreUint32", p); *p = v }
func LoadUint32(p *uint32) uint32           { pt("LoadUint32", p); return *p }
func SwapUint32(p *uint32, v uint32) uint32 { pt("SwapUint32", p); o := *p; *p = v; return o }
func AddUint32(p *uint32, d uint32) uint32  { pt("AddUint32", p); *p += d; return *p }
func StoreUint64(p *uint64, v uint64)       { pt("StoreUint64", p); *p = v }
func LoadUint64(p *uint64) uint64           { pt("LoadUint64", p); return *p }
func AddUint64(p *uint64, d uint64) uint64  { pt("AddUint64", p); *p += d; return *p }
func SwapUint64(p *uint64, v uint64) uint64 { pt("SwapUint64", p); o := *p; *p = v; return o }
func CompareAndSwapInt64(p *int64, o, n int64) bool {
	pt("CompareAndSwapInt64", p)
	if *p == o {
		*p = n
		return true
	}
	return false
}
func CompareAndSwapUint32(p *uint32, o, n uint32) bool {
	pt("CompareAndSwapUint32", p)
	if *p == o {
		*p = n
		return true
	}
	return false
}
func CompareAndSwapUint64(p *uint64, o, n uint64) bool {
	pt("CompareAndSwapUint64", p)
	if *p == o {
		*p = n
		return true
	}
	return false
}

// Value mirrors atomic.Value.
type Value struct{ v interface{} }

func (x *Value) Store(v interface{}) {
	if v == nil {
		panic("sync/atomic: store of nil value into Value")
	}
	pt("Value.Store", x)
	x.v = v
}
func (x *Value) Load() interface{} { pt("Value.Load", x); return x.v }
