package world

import (
	"errors"
	"fmt"
	"math/big"

	vmcommon "github.com/ElrondNetwork/elrond-vm-common"
	"github.com/ElrondNetwork/elrond-vm-common/builtInFunctions"
)

// ErrInjected is the sentinel returned by a dependency when E3 makes it fail.
var ErrInjected = errors.New("verif: injected dependency failure")

// Dep is one call of the library into the environment, recorded at the choke point.
type Dep struct {
	Kind   string // SaveKeyValue, RetrieveValue, LoadAccount, SaveAccount, Marshal, Unmarshal, IsPayable, AddToBalance, ChangeOwnerAddress, ClaimDeveloperRewards
	Detail string // address / key
}

// Schedule is a gas schedule as the two-level map the factory consumes.
type Schedule map[string]map[string]uint64

// BuiltInFields and BaseFields are the schedule's field names, in struct order.
var BuiltInFields = []string{"ChangeOwnerAddress", "ClaimDeveloperRewards", "SaveUserName", "SaveKeyValue", "ESDTTransfer", "ESDTBurn", "ESDTLocalMint", "ESDTLocalBurn", "ESDTNFTCreate", "ESDTNFTAddQuantity", "ESDTNFTBurn", "ESDTNFTTransfer", "ESDTNFTChangeCreateOwner", "ESDTNFTMultiTransfer", "ESDTNFTAddURI", "ESDTNFTUpdateAttributes"}
var BaseFields = []string{"StorePerByte", "ReleasePerByte", "DataCopyPerByte", "PersistPerByte", "CompilePerByte", "AoTPreparePerByte"}

// MakeSchedule builds a schedule whose i-th field (built-in fields first) is f(i).
func MakeSchedule(f func(i int) uint64) Schedule {
	s := Schedule{vmcommon.BuiltInCostString: {}, vmcommon.BaseOperationCostString: {}}
	i := 0
	for _, n := range BuiltInFields {
		s[vmcommon.BuiltInCostString][n] = f(i)
		i++
	}
	for _, n := range BaseFields {
		s[vmcommon.BaseOperationCostString][n] = f(i)
		i++
	}
	return s
}

// Clone deep-copies the schedule.
func (s Schedule) Clone() Schedule {
	if s == nil {
		return nil
	}
	c := Schedule{}
	for k, v := range s {
		if v == nil {
			c[k] = nil
			continue
		}
		c[k] = map[string]uint64{}
		for kk, vv := range v {
			c[k][kk] = vv
		}
	}
	return c
}

var firstPrimes = []uint64{101, 103, 107, 109, 113, 127, 131, 137, 139, 149, 151, 157, 163, 167, 173, 179, 181, 191, 193, 197, 199, 211,
	223, 227, 229, 233, 239, 241, 251, 257, 263, 269, 271, 277, 281, 283, 293, 307, 311, 313, 317, 331, 337, 347,
	349, 353, 359, 367, 373, 379, 383, 389, 397, 401, 409, 419, 421, 431, 433, 439, 443, 449, 457, 461, 463, 467}

// PrimeSchedule returns the k-th (k = 0,1,2) schedule of pairwise distinct primes.
func PrimeSchedule(k int) Schedule {
	return MakeSchedule(func(i int) uint64 { return firstPrimes[k*22+i] })
}

// DefaultSchedule is the schedule used by the ledger profiles (distinct primes, set 0).
func DefaultSchedule() Schedule { return PrimeSchedule(0) }

// EnvConfig is the factory configuration.
type EnvConfig struct {
	NumShards            int
	Schedule             Schedule
	DNS                  [][]byte
	EnableUserNameChange bool
	ActivationEpoch      uint32
	InitialEpoch         *uint32 // if non-nil, confirmed right after construction
	NoPayableHandler     bool    // leave the factory's default (refuse-all) handler in place
	// ChangesBeforeCreation are gas schedule changes the factory receives after its construction
	// and before it creates the function container
	ChangesBeforeCreation []Schedule
	// PayableHandlerTwice wires the container first with a permissive payability oracle, then with
	// the real one (the later handler is the one in force)
	PayableHandlerTwice bool
	// NotifierEpoch, if non-nil, is the epoch the notifier is in when the functions subscribe: it is
	// confirmed to every subscriber on registration
	NotifierEpoch *uint32
}

type alwaysPayable struct{}

func (alwaysPayable) IsPayable([]byte) (bool, error) { return true, nil }
func (alwaysPayable) IsInterfaceNil() bool           { return false }

// ShardEnv is the real factory + container of one shard, bound to the Env's current execution.
type ShardEnv struct {
	ID      uint32
	Factory interface {
		GasScheduleChange(map[string]map[string]uint64)
		CreateBuiltInFunctionContainer() (vmcommon.BuiltInFunctionContainer, error)
	}
	Container vmcommon.BuiltInFunctionContainer
	coord     *coordinator
	adapter   *adapter
	notifier  *Notifier
}

// Env is one worker's set of containers. It is not safe for concurrent Steps (the library objects
// are; the binding to "the current execution" is not) except through Exec objects created by
// BeginExec, which E4 uses one per thread.
type Env struct {
	Cfg    EnvConfig
	Shards []*ShardEnv

	// fault injection (E3) and dependency trace
	FailAt   int // 1-based index of the dependency call that fails; 0 = none
	FailKind func(d Dep) bool
	depCount int
	Trace    []Dep
	KeepDeps bool
	// DNSMap is the very map handed to the factory (an application may edit its own map later)
	DNSMap map[string]struct{}

	// scheduling hook (E4): called at every dependency call
	Point func(kind string)

	// PayQueries records the addresses the payability oracle was asked about (reset per leg)
	PayQueries []string

	// PrepareInput, if set, may rewrite the input object right before the call (C13 carves the
	// argument slices out of one backing array); the returned function runs right after the call.
	PrepareInput func(in *vmcommon.ContractCallInput) func()

	curByShard []*Exec
}

// Notifier is the harness epoch notifier: it records subscribers and confirms epochs on demand.
type Notifier struct {
	Subs    []vmcommon.EpochSubscriberHandler
	Current *uint32
}

// RegisterNotifyHandler implements vmcommon.EpochNotifier.
func (n *Notifier) RegisterNotifyHandler(h vmcommon.EpochSubscriberHandler) {
	n.Subs = append(n.Subs, h)
	if n.Current != nil {
		// a node's notifier tells a new subscriber the epoch it is in
		h.EpochConfirmed(*n.Current, 0)
	}
}

// IsInterfaceNil implements vmcommon.EpochNotifier.
func (n *Notifier) IsInterfaceNil() bool { return n == nil }

// Confirm notifies every subscriber.
func (n *Notifier) Confirm(epoch uint32) { n.ConfirmAt(epoch, 0) }

// ConfirmAt notifies every subscriber with the given header timestamp.
func (n *Notifier) ConfirmAt(epoch uint32, timestamp uint64) {
	for _, s := range n.Subs {
		s.EpochConfirmed(epoch, timestamp)
	}
}

// NewEnv builds one container per shard with the real factory.
func NewEnv(cfg EnvConfig) (*Env, error) {
	if cfg.NumShards == 0 {
		cfg.NumShards = 2
	}
	if cfg.Schedule == nil {
		cfg.Schedule = DefaultSchedule()
	}
	e := &Env{Cfg: cfg, curByShard: make([]*Exec, cfg.NumShards)}
	dns := map[string]struct{}{}
	for _, d := range cfg.DNS {
		dns[string(d)] = struct{}{}
	}
	e.DNSMap = dns
	for i := 0; i < cfg.NumShards; i++ {
		se := &ShardEnv{ID: uint32(i), notifier: &Notifier{Current: cfg.NotifierEpoch}}
		se.coord = &coordinator{env: e, self: uint32(i)}
		se.adapter = &adapter{env: e, shard: uint32(i)}
		f, err := builtInFunctions.NewBuiltInFunctionsFactory(builtInFunctions.ArgsCreateBuiltInFunctionContainer{
			GasMap:                              cfg.Schedule.Clone(),
			MapDNSAddresses:                     dns,
			EnableUserNameChange:                cfg.EnableUserNameChange,
			Marshalizer:                         &ProtoMarshalizer{env: e},
			Accounts:                            se.adapter,
			ShardCoordinator:                    se.coord,
			EpochNotifier:                       se.notifier,
			ESDTNFTImprovementV1ActivationEpoch: cfg.ActivationEpoch,
		})
		if err != nil {
			return nil, err
		}
		for _, ch := range cfg.ChangesBeforeCreation {
			f.GasScheduleChange(ch.Clone())
		}
		c, err := f.CreateBuiltInFunctionContainer()
		if err != nil {
			return nil, err
		}
		if !cfg.NoPayableHandler {
			if cfg.PayableHandlerTwice {
				// the container is wired a first time with an oracle that calls everything payable
				if err = builtInFunctions.SetPayableHandler(c, alwaysPayable{}); err != nil {
					return nil, err
				}
			}
			err = builtInFunctions.SetPayableHandler(c, &payable{env: e, shard: uint32(i)})
			if err != nil {
				return nil, err
			}
		}
		se.Factory = f
		se.Container = c
		if cfg.InitialEpoch != nil {
			se.notifier.Confirm(*cfg.InitialEpoch)
		}
		e.Shards = append(e.Shards, se)
	}
	return e, nil
}

// ConfirmEpoch notifies every shard's subscribers.
func (e *Env) ConfirmEpoch(epoch uint32) {
	for _, s := range e.Shards {
		s.notifier.Confirm(epoch)
	}
}

// ConfirmEpochAt notifies every shard's subscribers with a header timestamp.
func (e *Env) ConfirmEpochAt(epoch uint32, timestamp uint64) {
	for _, s := range e.Shards {
		s.notifier.ConfirmAt(epoch, timestamp)
	}
}

// ChangeSchedule applies a gas schedule change through every shard's factory.
func (e *Env) ChangeSchedule(s Schedule) {
	for _, se := range e.Shards {
		se.Factory.GasScheduleChange(s.Clone())
	}
}

// dep is the single choke point every environment call passes through.
func (e *Env) dep(kind, detail string) error {
	if e.Point != nil {
		e.Point(kind)
	}
	d := Dep{Kind: kind, Detail: detail}
	counted := e.FailKind == nil || e.FailKind(d)
	if counted {
		e.depCount++
	}
	if e.KeepDeps {
		e.Trace = append(e.Trace, d)
	}
	if counted && e.FailAt != 0 && e.depCount == e.FailAt {
		return ErrInjected
	}
	return nil
}

// ResetDeps clears the dependency counter and trace.
func (e *Env) ResetDeps() {
	e.depCount = 0
	e.Trace = nil
}

// DepCount is the number of counted dependency calls since ResetDeps.
func (e *Env) DepCount() int { return e.depCount }

// ---------------------------------------------------------------------------------------------
// Exec: one execution of one built-in function on one shard of one (mutable) world.

// Exec binds a shard's adapter to a world for the duration of one call (A2, A3).
type Exec struct {
	env     *Env
	w       *World
	shard   uint32
	working map[string]*AcctHandle
	saved   map[string]bool
	passed  map[string]bool
}

func (e *Env) begin(w *World, shard uint32) *Exec {
	x := &Exec{env: e, w: w, shard: shard, working: map[string]*AcctHandle{}, saved: map[string]bool{}, passed: map[string]bool{}}
	e.curByShard[shard] = x
	return x
}

func (e *Env) cur(shard uint32) *Exec { return e.curByShard[shard] }

// handle returns the one object for addr within this execution (identity map, A3).
func (x *Exec) handle(addr []byte) *AcctHandle {
	k := string(addr)
	if h, ok := x.working[k]; ok {
		return h
	}
	var acc *Account
	if stored := x.w.Shards[x.shard].Accts[k]; stored != nil {
		acc = stored.Clone()
	} else {
		acc = NewAccount(addr)
	}
	h := &AcctHandle{x: x, acc: acc}
	x.working[k] = h
	return h
}

// commit persists the accounts the driver passed in or the function saved (A3).
func (x *Exec) commit() {
	for k := range x.working {
		if !x.passed[k] && !x.saved[k] {
			continue
		}
		acc := x.working[k].acc
		if acc.Empty() {
			delete(x.w.Shards[x.shard].Accts, k)
		} else {
			x.w.Shards[x.shard].Accts[k] = acc
		}
	}
}

// ---------------------------------------------------------------------------------------------

// AcctHandle implements vmcommon.UserAccountHandler and vmcommon.AccountDataHandler.
type AcctHandle struct {
	x   *Exec
	acc *Account
}

func (h *AcctHandle) GetCodeMetadata() []byte { return append([]byte(nil), h.acc.CodeMetadata...) }
func (h *AcctHandle) GetCodeHash() []byte     { return nil }
func (h *AcctHandle) GetRootHash() []byte     { return nil }
func (h *AcctHandle) AccountDataHandler() vmcommon.AccountDataHandler {
	return h
}
func (h *AcctHandle) AddToBalance(v *big.Int) error {
	if err := h.x.env.dep("AddToBalance", string(h.acc.Addr)); err != nil {
		return err
	}
	nb := new(big.Int).Add(h.acc.Balance, v)
	if nb.Sign() < 0 {
		return fmt.Errorf("insufficient funds")
	}
	h.acc.Balance = nb
	return nil
}
func (h *AcctHandle) GetBalance() *big.Int { return new(big.Int).Set(h.acc.Balance) }
func (h *AcctHandle) ClaimDeveloperRewards(snd []byte) (*big.Int, error) {
	if err := h.x.env.dep("ClaimDeveloperRewards", string(h.acc.Addr)); err != nil {
		return nil, err
	}
	if string(snd) != string(h.acc.Owner) {
		return nil, fmt.Errorf("operation not permitted")
	}
	old := h.acc.DevReward
	h.acc.DevReward = big.NewInt(0)
	return new(big.Int).Set(old), nil
}
func (h *AcctHandle) GetDeveloperReward() *big.Int { return new(big.Int).Set(h.acc.DevReward) }
func (h *AcctHandle) ChangeOwnerAddress(snd []byte, newAddr []byte) error {
	if err := h.x.env.dep("ChangeOwnerAddress", string(h.acc.Addr)); err != nil {
		return err
	}
	if string(snd) != string(h.acc.Owner) {
		return fmt.Errorf("operation not permitted")
	}
	if len(newAddr) != len(h.acc.Addr) {
		return fmt.Errorf("invalid address length")
	}
	h.acc.Owner = append([]byte(nil), newAddr...)
	return nil
}
func (h *AcctHandle) SetOwnerAddress(a []byte) { h.acc.Owner = append([]byte(nil), a...) }
func (h *AcctHandle) GetOwnerAddress() []byte  { return append([]byte(nil), h.acc.Owner...) }
func (h *AcctHandle) SetUserName(n []byte)     { h.acc.UserName = append([]byte(nil), n...) }
func (h *AcctHandle) GetUserName() []byte      { return append([]byte(nil), h.acc.UserName...) }
func (h *AcctHandle) AddressBytes() []byte     { return append([]byte(nil), h.acc.Addr...) }
func (h *AcctHandle) IncreaseNonce(n uint64)   { h.acc.Nonce += n }
func (h *AcctHandle) GetNonce() uint64         { return h.acc.Nonce }
func (h *AcctHandle) IsInterfaceNil() bool     { return h == nil }

// RetrieveValue implements AccountDataHandler: a missing key yields (nil, nil); values are copied.
func (h *AcctHandle) RetrieveValue(key []byte) ([]byte, error) {
	if err := h.x.env.dep("RetrieveValue", string(key)); err != nil {
		return nil, err
	}
	v, ok := h.acc.Storage[string(key)]
	if !ok {
		return nil, nil
	}
	return append([]byte(nil), v...), nil
}

// SaveKeyValue implements AccountDataHandler: an empty value deletes the key; both are copied.
func (h *AcctHandle) SaveKeyValue(key []byte, value []byte) error {
	if err := h.x.env.dep("SaveKeyValue", string(key)); err != nil {
		return err
	}
	if len(value) == 0 {
		delete(h.acc.Storage, string(key))
		return nil
	}
	h.acc.Storage[string(key)] = append([]byte(nil), value...)
	return nil
}

// ---------------------------------------------------------------------------------------------

type adapter struct {
	env   *Env
	shard uint32
}

func (a *adapter) LoadAccount(address []byte) (vmcommon.AccountHandler, error) {
	if err := a.env.dep("LoadAccount", string(address)); err != nil {
		return nil, err
	}
	x := a.env.cur(a.shard)
	if x == nil {
		return nil, fmt.Errorf("verif: no execution bound to shard %d", a.shard)
	}
	return x.handle(address), nil
}

func (a *adapter) GetExistingAccount(address []byte) (vmcommon.AccountHandler, error) {
	if err := a.env.dep("GetExistingAccount", string(address)); err != nil {
		return nil, err
	}
	x := a.env.cur(a.shard)
	if x == nil {
		return nil, fmt.Errorf("verif: no execution bound to shard %d", a.shard)
	}
	if _, ok := x.working[string(address)]; !ok {
		if x.w.Shards[a.shard].Accts[string(address)] == nil {
			return nil, fmt.Errorf("account not found")
		}
	}
	return x.handle(address), nil
}

func (a *adapter) SaveAccount(account vmcommon.AccountHandler) error {
	var addr []byte
	if account != nil && !account.IsInterfaceNil() {
		addr = account.AddressBytes()
	}
	if err := a.env.dep("SaveAccount", string(addr)); err != nil {
		return err
	}
	x := a.env.cur(a.shard)
	if x == nil {
		return fmt.Errorf("verif: no execution bound to shard %d", a.shard)
	}
	h, ok := account.(*AcctHandle)
	if !ok || h == nil {
		return fmt.Errorf("verif: foreign account object")
	}
	// identity map: the object must be the one handed out for this address in this execution
	if x.working[string(addr)] != h {
		return fmt.Errorf("verif: SaveAccount of an object not handed out in this execution")
	}
	x.saved[string(addr)] = true
	return nil
}

func (a *adapter) RemoveAccount(_ []byte) error { return fmt.Errorf("not supported") }
func (a *adapter) Commit() ([]byte, error)      { return nil, nil }
func (a *adapter) JournalLen() int              { return 0 }
func (a *adapter) RevertToSnapshot(_ int) error { return nil }
func (a *adapter) GetNumCheckpoints() uint32    { return 0 }
func (a *adapter) GetCode(_ []byte) []byte      { return nil }
func (a *adapter) RootHash() ([]byte, error)    { return nil, nil }
func (a *adapter) RecreateTrie(_ []byte) error  { return nil }
func (a *adapter) IsInterfaceNil() bool         { return a == nil }

// ---------------------------------------------------------------------------------------------

type coordinator struct {
	env  *Env
	self uint32
}

func (c *coordinator) NumberOfShards() uint32 { return uint32(c.env.Cfg.NumShards) }
func (c *coordinator) ComputeId(address []byte) uint32 {
	x := c.env.cur(c.self)
	if x == nil {
		return c.self
	}
	if vmcommon.IsSystemAccountAddress(address) {
		return c.self
	}
	return x.w.ShardOf(address)
}
func (c *coordinator) SelfId() uint32 { return c.self }
func (c *coordinator) SameShard(a, b []byte) bool {
	return c.ComputeId(a) == c.ComputeId(b)
}
func (c *coordinator) CommunicationIdentifier(dest uint32) string {
	return fmt.Sprintf("_%d_%d", c.self, dest)
}
func (c *coordinator) IsInterfaceNil() bool { return c == nil }

// ---------------------------------------------------------------------------------------------

type payable struct {
	env   *Env
	shard uint32
}

func (p *payable) IsPayable(address []byte) (bool, error) {
	if err := p.env.dep("IsPayable", string(address)); err != nil {
		return false, err
	}
	x := p.env.cur(p.shard)
	if x == nil {
		return false, fmt.Errorf("verif: no execution bound")
	}
	x.env.PayQueries = append(x.env.PayQueries, string(address))
	ok, isErr := x.w.PayAnswer(address)
	if isErr {
		return false, fmt.Errorf("verif: payability oracle error")
	}
	return ok, nil
}
func (p *payable) IsInterfaceNil() bool { return p == nil }

// ---------------------------------------------------------------------------------------------

type marshaler interface {
	Marshal() ([]byte, error)
}
type unmarshaler interface {
	Reset()
	Unmarshal([]byte) error
}

// ProtoMarshalizer is the node's GogoProtoMarshalizer (A9): generated gogo methods only.
type ProtoMarshalizer struct{ env *Env }

func (m *ProtoMarshalizer) Marshal(obj interface{}) ([]byte, error) {
	if m.env != nil {
		if err := m.env.dep("Marshal", ""); err != nil {
			return nil, err
		}
	}
	o, ok := obj.(marshaler)
	if !ok {
		return nil, fmt.Errorf("%T, can not be marshalled with gogo proto", obj)
	}
	return o.Marshal()
}

func (m *ProtoMarshalizer) Unmarshal(obj interface{}, buff []byte) error {
	if m.env != nil {
		if err := m.env.dep("Unmarshal", ""); err != nil {
			return err
		}
	}
	o, ok := obj.(unmarshaler)
	if !ok {
		return fmt.Errorf("%T, can not be unmarshalled with gogo proto", obj)
	}
	o.Reset()
	return o.Unmarshal(buff)
}

func (m *ProtoMarshalizer) IsInterfaceNil() bool { return m == nil }
