package world

import (
	"bytes"
	"fmt"
	"math/big"
	"runtime"
	"runtime/debug"
	"sort"

	vmcommon "github.com/ElrondNetwork/elrond-vm-common"
	"github.com/ElrondNetwork/elrond-vm-common/parsers"
	"github.com/ElrondNetwork/elrond-vm-common/txDataBuilder"
)

// ActKind distinguishes the transitions of the explorer.
type ActKind int

const (
	ActCall         ActKind = iota // a transaction / system-contract call (A1)
	ActDeliver                     // delivery of in-flight message Msg (A5)
	ActDeliverTwice                // delivery followed by an immediate duplicate (A5)
)

// Action is one transition label.
type Action struct {
	Kind      ActKind
	Caller    []byte
	Recipient []byte
	Func      string
	Args      [][]byte
	Gas       uint64
	GasLocked uint64
	CallType  vmcommon.CallType
	Value     *big.Int
	Shard     int // executing shard when the recipient is the system account and the caller is on the metachain
	Msg       int // index into World.Inflight for deliveries
	Label     string
	// ReturnAfterError sets VMInput.ReturnCallAfterError on a call action. An honest node sets the
	// flag only on return transfers (A6); safety profiles use it as an adversarial input flag.
	ReturnAfterError bool
}

// Leg is one execution of one built-in function (or one bookkeeping step) inside a Step.
type Leg struct {
	Side        string // "sender": sender account local; "sys": caller on the metachain; "dest": delivery; "intra": same-shard built-in result
	Shard       uint32
	Func        string
	Input       *vmcommon.ContractCallInput
	SndLocal    bool
	DstLocal    bool
	Out         *vmcommon.VMOutput
	Err         error
	Panic       interface{}
	PanicStack  string
	Pre, Post   *World
	Delivered   *Msg  // the message this leg delivered (dest legs)
	Duplicate   bool  // second delivery of the same message (deliverTwice)
	Outs        []Msg // every output transfer of the call, whatever its routing
	Emitted     []Msg // cross-shard messages put in flight by this leg
	Forwarded   bool  // Emitted[0] is the driver's re-encoding of the user's own transaction (A4 ii)
	LocalCalls  []Msg // same-shard transfers carrying a contract call (recorded only)
	ToMeta      []Msg // messages addressed to the metachain (dropped)
	Unparsable  bool  // delivery: Data was rejected by the call-arguments parser
	NotBuiltin  bool  // delivery: function is not a built-in (contract call; dropped)
	Refund      *Msg  // refund created because this delivery failed (A6)
	Stuck       *Msg  // refund that was refused
	Deps        []Dep
	PayQueries  []string
	AllocBytes  uint64
	BadTransfer string // malformed OutputTransfer bookkeeping (e.g. nil recipient)
}

// OK reports whether the leg's call succeeded in the sense of A2.
func (l *Leg) OK() bool {
	return l.Panic == nil && l.Err == nil && l.Out != nil && l.Out.ReturnCode == vmcommon.Ok
}

var argParser = parsers.NewCallArgsParser()

// TransferFuncs are the three token transfer names (refunds exist only for them, A6).
var TransferFuncs = map[string]bool{
	vmcommon.BuiltInFunctionESDTTransfer:         true,
	vmcommon.BuiltInFunctionESDTNFTTransfer:      true,
	vmcommon.BuiltInFunctionMultiESDTNFTTransfer: true,
}

func cloneArgs(a [][]byte) [][]byte {
	out := make([][]byte, len(a))
	for i, x := range a {
		out[i] = append([]byte{}, x...)
	}
	return out
}

// MeasureAlloc makes run() record the bytes allocated by each call (C11); slow.
var MeasureAlloc = false

// run executes fn on shard against leg.Pre, which is only read. On success leg.Post becomes a
// clone of leg.Pre with the execution's accounts committed (A1-A3); on failure leg.Post = leg.Pre.
func (e *Env) run(shard uint32, fn string, snd, dst []byte, in *vmcommon.ContractCallInput, leg *Leg) {
	w := leg.Pre
	leg.Post = leg.Pre
	f, err := e.Shards[shard].Container.Get(fn)
	if err != nil {
		leg.Err = fmt.Errorf("verif: not a built-in function: %s", fn)
		leg.NotBuiltin = true
		return
	}
	x := e.begin(w, shard)
	defer func() { e.curByShard[shard] = nil }()
	var hs, hd vmcommon.UserAccountHandler
	if snd != nil {
		h := x.handle(snd)
		x.passed[string(snd)] = true
		hs = h
		leg.SndLocal = true
	}
	if dst != nil {
		h := x.handle(dst)
		x.passed[string(dst)] = true
		hd = h
		leg.DstLocal = true
	}
	e.PayQueries = nil
	depStart := len(e.Trace)
	var m0 runtime.MemStats
	if MeasureAlloc {
		runtime.ReadMemStats(&m0)
	}
	var afterCall func()
	if e.PrepareInput != nil {
		afterCall = e.PrepareInput(in)
	}
	func() {
		defer func() {
			if r := recover(); r != nil {
				leg.Panic = r
				leg.PanicStack = string(debug.Stack())
				leg.Out, leg.Err = nil, nil
			}
		}()
		leg.Out, leg.Err = f.ProcessBuiltinFunction(hs, hd, in)
	}()
	if afterCall != nil {
		afterCall()
	}
	if MeasureAlloc {
		var m1 runtime.MemStats
		runtime.ReadMemStats(&m1)
		leg.AllocBytes = m1.TotalAlloc - m0.TotalAlloc
	}
	if e.KeepDeps {
		leg.Deps = append([]Dep(nil), e.Trace[depStart:]...)
	}
	leg.PayQueries = e.PayQueries
	e.PayQueries = nil
	if leg.OK() {
		leg.Post = w.Clone()
		x.w = leg.Post
		x.commit()
	}
}

func (w *World) isSystemAccount(addr []byte) bool {
	return bytes.Equal(addr, vmcommon.SystemAccountAddress)
}

// Step applies one action to (a clone of) w and returns the resulting world and its legs.
// w itself is never modified.
func (e *Env) Step(w *World, act Action) (*World, []*Leg) {
	switch act.Kind {
	case ActCall:
		return e.stepCall(w, act)
	case ActDeliver:
		return e.stepDeliver(w, act.Msg, false)
	case ActDeliverTwice:
		return e.stepDeliver(w, act.Msg, true)
	}
	panic("verif: unknown action kind")
}

func (e *Env) stepCall(w *World, act Action) (*World, []*Leg) {
	leg := &Leg{Func: act.Func, Pre: w, Post: w}
	in := &vmcommon.ContractCallInput{
		VMInput: vmcommon.VMInput{
			CallerAddr:  append([]byte{}, act.Caller...),
			Arguments:   cloneArgs(act.Args),
			CallValue:   big.NewInt(0),
			CallType:    act.CallType,
			GasProvided: act.Gas,
			GasLocked:   act.GasLocked,

			ReturnCallAfterError: act.ReturnAfterError,
		},
		RecipientAddr: append([]byte{}, act.Recipient...),
		Function:      act.Func,
	}
	if act.Value != nil {
		in.CallValue = new(big.Int).Set(act.Value)
	}
	leg.Input = in

	var shard uint32
	var snd, dst []byte
	callerShard := w.ShardOf(act.Caller)
	if callerShard == vmcommon.MetachainShardId {
		leg.Side = "sys"
		if w.isSystemAccount(act.Recipient) {
			shard = uint32(act.Shard)
		} else {
			shard = w.ShardOf(act.Recipient)
		}
		if shard == vmcommon.MetachainShardId || int(shard) >= len(w.Shards) {
			leg.Err = fmt.Errorf("verif: nothing executes on the metachain")
			leg.Post = w
			return w, []*Leg{leg}
		}
		dst = act.Recipient
	} else {
		leg.Side = "sender"
		shard = callerShard
		snd = act.Caller
		if w.isSystemAccount(act.Recipient) || w.ShardOf(act.Recipient) == shard {
			dst = act.Recipient
		}
	}
	leg.Shard = shard
	e.run(shard, act.Func, snd, dst, in, leg)
	legs := []*Leg{leg}
	if !leg.OK() {
		return w, legs
	}
	post := leg.Post
	execAddr := act.Caller
	if snd == nil {
		execAddr = act.Recipient
	}
	cur := e.afterSuccess(post, leg, execAddr, &legs)
	// A4 (ii): the user's own cross-shard transaction continues on the destination shard
	// (a contract's asynchronous call of a built-in function on a remote account continues there too)
	if leg.Side == "sender" && (!vmcommon.IsSmartContractAddress(act.Caller) || act.CallType == vmcommon.AsynchronousCall) && dst == nil {
		emittedToRecipient := false
		for _, m := range leg.Emitted {
			if bytes.Equal(m.To, act.Recipient) {
				emittedToRecipient = true
			}
		}
		for _, m := range leg.ToMeta {
			if bytes.Equal(m.To, act.Recipient) {
				emittedToRecipient = true
			}
		}
		if !emittedToRecipient {
			b := txDataBuilder.NewBuilder().Func(act.Func)
			for _, a := range act.Args {
				b.Bytes(a)
			}
			m := Msg{From: append([]byte{}, act.Caller...), To: append([]byte{}, act.Recipient...), Data: b.ToBytes(),
				Value: big.NewInt(0), GasLimit: leg.Out.GasRemaining, GasLocked: act.GasLocked, CallType: act.CallType,
				OrigAsync: act.CallType == vmcommon.AsynchronousCall}
			if w.ShardOf(act.Recipient) == vmcommon.MetachainShardId {
				leg.ToMeta = append(leg.ToMeta, m)
			} else {
				leg.Emitted = append([]Msg{m}, leg.Emitted...)
				leg.Forwarded = true
				// the forwarded message belongs to the first leg's post-state and every later one
				seen := map[*World]bool{w: true}
				for _, l := range legs {
					if seen[l.Post] {
						continue
					}
					seen[l.Post] = true
					l.Post.Inflight = append(l.Post.Inflight, m.clone())
					l.Post.SortInflight()
				}
			}
		}
	}
	return cur, legs
}

// afterSuccess turns the output transfers of a successful leg into in-flight messages, recorded
// contract calls and immediate intra-shard built-in results (A4); it updates the ghost.
func (e *Env) afterSuccess(post *World, leg *Leg, execAddr []byte, legs *[]*Leg) *World {
	e.updateGhost(post, leg)
	type pending struct{ m Msg }
	var intra []pending
	addrs := make([]string, 0, len(leg.Out.OutputAccounts))
	for k := range leg.Out.OutputAccounts {
		addrs = append(addrs, k)
	}
	sort.Strings(addrs)
	for _, k := range addrs {
		oa := leg.Out.OutputAccounts[k]
		if oa == nil {
			leg.BadTransfer = "nil output account"
			continue
		}
		for _, ot := range oa.OutputTransfers {
			to := oa.Address
			m := Msg{From: append([]byte{}, execAddr...), To: append([]byte{}, to...), Data: append([]byte{}, ot.Data...),
				GasLimit: ot.GasLimit, GasLocked: ot.GasLocked, CallType: ot.CallType,
				FromSys:   bytes.Equal(leg.Input.CallerAddr, vmcommon.ESDTSCAddress),
				OrigAsync: ot.CallType == vmcommon.AsynchronousCall}
			if ot.Value != nil {
				m.Value = new(big.Int).Set(ot.Value)
			}
			if leg.Delivered != nil && leg.Delivered.FromSys {
				m.FromSys = true
			}
			leg.Outs = append(leg.Outs, m)
			var toShard uint32
			if post.isSystemAccount(to) {
				toShard = leg.Shard
			} else {
				toShard = post.ShardOf(to)
			}
			switch {
			case toShard == vmcommon.MetachainShardId:
				leg.ToMeta = append(leg.ToMeta, m)
			case toShard != leg.Shard:
				leg.Emitted = append(leg.Emitted, m)
				post.Inflight = append(post.Inflight, m.clone())
			default:
				fn, _, perr := argParser.ParseData(string(m.Data))
				if perr == nil {
					if _, gerr := e.Shards[leg.Shard].Container.Get(fn); gerr == nil && leg.Side != "intra" {
						intra = append(intra, pending{m})
						continue
					}
				}
				leg.LocalCalls = append(leg.LocalCalls, m)
			}
		}
	}
	post.SortInflight()
	cur := post
	for _, p := range intra {
		fn, args, _ := argParser.ParseData(string(p.m.Data))
		il := &Leg{Side: "intra", Shard: leg.Shard, Func: fn, Pre: cur, Post: cur}
		msg := p.m
		il.Delivered = &msg
		il.Input = &vmcommon.ContractCallInput{
			VMInput: vmcommon.VMInput{
				CallerAddr:  append([]byte{}, p.m.From...),
				Arguments:   cloneArgs(args),
				CallValue:   big.NewInt(0),
				CallType:    p.m.CallType,
				GasProvided: p.m.GasLimit,
				GasLocked:   p.m.GasLocked,
			},
			RecipientAddr: append([]byte{}, p.m.To...),
			Function:      fn,
		}
		e.run(leg.Shard, fn, p.m.From, p.m.To, il.Input, il)
		*legs = append(*legs, il)
		if il.OK() {
			cur = e.afterSuccess(il.Post, il, p.m.From, legs)
		}
	}
	return cur
}

func (e *Env) updateGhost(post *World, leg *Leg) {
	// the freeze / pause controls the system contract had accepted
	if leg.Input != nil && bytes.Equal(leg.Input.CallerAddr, vmcommon.ESDTSCAddress) && len(leg.Input.Arguments) >= 1 {
		tok := string(leg.Input.Arguments[0])
		switch leg.Func {
		case vmcommon.BuiltInFunctionESDTFreeze:
			post.ghostSetFlag("frozen", leg.Input.RecipientAddr, tok, true)
		case vmcommon.BuiltInFunctionESDTUnFreeze, vmcommon.BuiltInFunctionESDTWipe:
			post.ghostSetFlag("frozen", leg.Input.RecipientAddr, tok, false)
		case vmcommon.BuiltInFunctionESDTPause:
			post.ghostSetFlag("paused", []byte{byte(leg.Shard)}, tok, true)
		case vmcommon.BuiltInFunctionESDTUnPause:
			post.ghostSetFlag("paused", []byte{byte(leg.Shard)}, tok, false)
		}
	}
	// the system contract's own role records (A7 a): what it granted and revoked
	if leg.Input != nil && bytes.Equal(leg.Input.CallerAddr, vmcommon.ESDTSCAddress) && len(leg.Input.Arguments) >= 2 {
		tok := string(leg.Input.Arguments[0])
		var names []string
		for _, a := range leg.Input.Arguments[1:] {
			names = append(names, string(a))
		}
		switch leg.Func {
		case vmcommon.BuiltInFunctionSetESDTRole:
			post.ghostSetRoles(leg.Input.RecipientAddr, tok, names, nil)
		case vmcommon.BuiltInFunctionUnSetESDTRole:
			post.ghostSetRoles(leg.Input.RecipientAddr, tok, nil, names)
		case vmcommon.BuiltInFunctionESDTNFTCreateRoleTransfer:
			if len(leg.Input.Arguments) == 2 {
				post.ghostSetRoles(leg.Input.RecipientAddr, tok, nil, []string{vmcommon.ESDTRoleNFTCreate})
				post.ghostSetRoles(leg.Input.Arguments[1], tok, []string{vmcommon.ESDTRoleNFTCreate}, nil)
			}
		}
	}
	if leg.Func != vmcommon.BuiltInFunctionESDTNFTCreate || leg.Out == nil || len(leg.Out.ReturnData) == 0 || len(leg.Input.Arguments) == 0 {
		return
	}
	tok := string(leg.Input.Arguments[0])
	n := new(big.Int).SetBytes(leg.Out.ReturnData[0])
	if !n.IsUint64() {
		return
	}
	nonce := n.Uint64()
	if nonce > post.Ghost.Highest[tok] {
		post.Ghost.Highest[tok] = nonce
	}
	key := tok + "|" + n.String()
	if _, dup := post.Ghost.Issued[key]; !dup {
		acc := post.Get(leg.Input.CallerAddr)
		var raw []byte
		if acc != nil {
			raw = acc.Storage[vmcommon.ElrondProtectedKeyPrefix+vmcommon.ESDTKeyIdentifier+tok+string(n.Bytes())]
		}
		post.Ghost.Issued[key] = append([]byte{}, raw...)
	}
}

func (e *Env) stepDeliver(w *World, idx int, twice bool) (*World, []*Leg) {
	if idx < 0 || idx >= len(w.Inflight) {
		panic("verif: delivery index out of range")
	}
	msg := w.Inflight[idx].clone()
	post := w.Clone()
	post.Inflight = append(post.Inflight[:idx], post.Inflight[idx+1:]...)
	var legs []*Leg
	cur := e.deliver(w, post, msg, false, &legs)
	if twice {
		nw := cur.Clone()
		cur = e.deliver(cur, nw, msg, true, &legs)
	}
	return cur, legs
}

// deliver executes one message on its destination shard (A5) and creates refunds (A6).
// pre is the state before, post a private clone with the message already removed.
func (e *Env) deliver(pre, post *World, msg Msg, duplicate bool, legs *[]*Leg) *World {
	shard := post.ShardOf(msg.To)
	leg := &Leg{Side: "dest", Shard: shard, Pre: pre, Post: post, Duplicate: duplicate}
	m := msg
	leg.Delivered = &m
	*legs = append(*legs, leg)
	if shard == vmcommon.MetachainShardId {
		leg.Err = fmt.Errorf("verif: addressed to the metachain")
		return post
	}
	fn, args, perr := argParser.ParseData(string(msg.Data))
	if perr != nil {
		leg.Unparsable = true
		leg.Err = perr
		if TransferFuncsPrefix(msg.Data) && !duplicate {
			e.refund(post, leg, msg)
		}
		return post
	}
	leg.Func = fn
	leg.Input = &vmcommon.ContractCallInput{
		VMInput: vmcommon.VMInput{
			CallerAddr:           append([]byte{}, msg.From...),
			Arguments:            cloneArgs(args),
			CallValue:            big.NewInt(0),
			CallType:             msg.CallType,
			GasProvided:          msg.GasLimit,
			GasLocked:            msg.GasLocked,
			ReturnCallAfterError: msg.Refund,
		},
		RecipientAddr: append([]byte{}, msg.To...),
		Function:      fn,
	}
	if msg.Value != nil {
		leg.Input.CallValue = new(big.Int).Set(msg.Value)
	}
	leg.Pre = post // execute against the state with the message already taken out of the pool
	e.run(shard, fn, nil, msg.To, leg.Input, leg)
	leg.Pre = pre
	if leg.NotBuiltin {
		leg.Post = post
		return post
	}
	if leg.OK() {
		return e.afterSuccess(leg.Post, leg, msg.To, legs)
	}
	leg.Post = post
	if TransferFuncs[fn] && !duplicate {
		e.refund(post, leg, msg)
	}
	return post
}

// TransferFuncsPrefix reports whether data starts with one of the three transfer names + '@'.
func TransferFuncsPrefix(data []byte) bool {
	for n := range TransferFuncs {
		if bytes.HasPrefix(data, []byte(n+"@")) {
			return true
		}
	}
	return false
}

func (e *Env) refund(post *World, leg *Leg, msg Msg) {
	if msg.Refund {
		s := msg.clone()
		leg.Stuck = &s
		post.Stuck = append(post.Stuck, s.clone())
		post.SortInflight()
		return
	}
	r := msg.clone()
	r.From, r.To = msg.To, msg.From
	r.Refund = true
	if msg.OrigAsync {
		r.CallType = vmcommon.AsynchronousCallBack
	} else {
		r.CallType = vmcommon.DirectCall
	}
	leg.Refund = &r
	post.Inflight = append(post.Inflight, r.clone())
	post.SortInflight()
}

// ParseCallData exposes the call-arguments parser used by the driver.
func ParseCallData(data string) (string, [][]byte, error) { return argParser.ParseData(data) }
