// Package world is the harness-owned environment of the built-in functions: an in-memory
// multi-shard ledger, the account / adapter / coordinator / marshalizer / payable / epoch objects
// handed to the real factory, and the driver that plays the node (DESIGN.md §2, A1-A10).
package world

import (
	"bytes"
	"crypto/sha256"
	"encoding/binary"
	"math/big"
	"sort"
	"strings"

	vmcommon "github.com/ElrondNetwork/elrond-vm-common"
)

// Account is the complete persistent state of one address on one shard.
type Account struct {
	Addr         []byte
	Storage      map[string][]byte
	Balance      *big.Int
	Owner        []byte
	UserName     []byte
	DevReward    *big.Int
	Nonce        uint64
	CodeMetadata []byte
}

// NewAccount returns an empty account for addr.
func NewAccount(addr []byte) *Account {
	return &Account{
		Addr:      append([]byte(nil), addr...),
		Storage:   map[string][]byte{},
		Balance:   big.NewInt(0),
		DevReward: big.NewInt(0),
	}
}

// Clone deep-copies the account.
func (a *Account) Clone() *Account {
	c := &Account{
		Addr:         append([]byte(nil), a.Addr...),
		Storage:      make(map[string][]byte, len(a.Storage)),
		Balance:      new(big.Int).Set(a.Balance),
		Owner:        append([]byte(nil), a.Owner...),
		UserName:     append([]byte(nil), a.UserName...),
		DevReward:    new(big.Int).Set(a.DevReward),
		Nonce:        a.Nonce,
		CodeMetadata: append([]byte(nil), a.CodeMetadata...),
	}
	for k, v := range a.Storage {
		c.Storage[k] = append([]byte(nil), v...)
	}
	return c
}

// Empty reports whether the account carries no state at all (such accounts are not kept).
func (a *Account) Empty() bool {
	return len(a.Storage) == 0 && a.Balance.Sign() == 0 && len(a.Owner) == 0 && len(a.UserName) == 0 &&
		a.DevReward.Sign() == 0 && a.Nonce == 0 && len(a.CodeMetadata) == 0
}

// Shard holds the accounts living on one shard (including its copy of the system account).
type Shard struct {
	ID    uint32
	Accts map[string]*Account
}

// Msg is an in-flight cross-shard message (A4-A6).
type Msg struct {
	From      []byte
	To        []byte
	Data      []byte
	Value     *big.Int
	GasLimit  uint64
	GasLocked uint64
	CallType  vmcommon.CallType
	Refund    bool // ReturnCallAfterError (A6) - only ever set by the driver
	FromSys   bool // ghost: emitted by an execution whose caller was the ESDT system contract
	OrigAsync bool // ghost: the original call type was AsynchronousCall (refund call type, A6)
}

func (m Msg) clone() Msg {
	c := m
	c.From = append([]byte(nil), m.From...)
	c.To = append([]byte(nil), m.To...)
	c.Data = append([]byte(nil), m.Data...)
	if m.Value != nil {
		c.Value = new(big.Int).Set(m.Value)
	}
	return c
}

func (m Msg) canon() []byte {
	var b bytes.Buffer
	wb(&b, m.From)
	wb(&b, m.To)
	wb(&b, m.Data)
	if m.Value != nil {
		wb(&b, []byte(m.Value.String()))
	} else {
		wb(&b, nil)
	}
	wu(&b, m.GasLimit)
	wu(&b, m.GasLocked)
	wu(&b, uint64(m.CallType))
	flags := uint64(0)
	if m.Refund {
		flags |= 1
	}
	if m.FromSys {
		flags |= 2
	}
	if m.OrigAsync {
		flags |= 4
	}
	wu(&b, flags)
	return b.Bytes()
}

// Payability answers of the oracle (A8).
const (
	PayDefault    = int8(0) // users payable, contracts by table default (non-payable)
	PayYes        = int8(1)
	PayNo         = int8(2)
	PayError      = int8(3)
	payTableWidth = 4
)

// Ghost holds history variables the properties need but the ledger does not store.
type Ghost struct {
	Highest map[string]uint64 // token -> highest nonce ever issued by a successful ESDTNFTCreate
	Issued  map[string][]byte // token|nonce -> marshalled metadata recorded at creation
	// Roles is the system contract's own record of the roles it has granted (account|token ->
	// role names joined by ','): discipline A7 (a) speaks of what the system contract believes,
	// not of what the account happens to store
	Roles map[string]string
}

// World is one global state: every shard, the in-flight pool, the payability table and the ghost.
type World struct {
	Shards   []*Shard
	Inflight []Msg // canonical (sorted) order
	Stuck    []Msg // refunds that were refused (counted in the conservation sum, never delivered)
	Payable  map[string]int8
	Meta     map[string]bool // addresses (besides ESDTSCAddress) that live on the metachain
	Ghost    Ghost
}

// New returns an empty world with n shards.
func New(n int) *World {
	w := &World{Payable: map[string]int8{}, Meta: map[string]bool{}}
	for i := 0; i < n; i++ {
		w.Shards = append(w.Shards, &Shard{ID: uint32(i), Accts: map[string]*Account{}})
	}
	w.Ghost = Ghost{Highest: map[string]uint64{}, Issued: map[string][]byte{}, Roles: map[string]string{}}
	return w
}

// Clone deep-copies the world.
func (w *World) Clone() *World {
	c := &World{Payable: make(map[string]int8, len(w.Payable)), Meta: w.Meta}
	for k, v := range w.Payable {
		c.Payable[k] = v
	}
	for _, s := range w.Shards {
		ns := &Shard{ID: s.ID, Accts: make(map[string]*Account, len(s.Accts))}
		for k, a := range s.Accts {
			ns.Accts[k] = a.Clone()
		}
		c.Shards = append(c.Shards, ns)
	}
	c.Inflight = make([]Msg, len(w.Inflight))
	for i, m := range w.Inflight {
		c.Inflight[i] = m.clone()
	}
	c.Stuck = make([]Msg, len(w.Stuck))
	for i, m := range w.Stuck {
		c.Stuck[i] = m.clone()
	}
	c.Ghost = Ghost{Highest: make(map[string]uint64, len(w.Ghost.Highest)), Issued: make(map[string][]byte, len(w.Ghost.Issued)), Roles: make(map[string]string, len(w.Ghost.Roles))}
	for k, v := range w.Ghost.Roles {
		c.Ghost.Roles[k] = v
	}
	for k, v := range w.Ghost.Highest {
		c.Ghost.Highest[k] = v
	}
	for k, v := range w.Ghost.Issued {
		c.Ghost.Issued[k] = v
	}
	return c
}

// NumShards is the number of real shards.
func (w *World) NumShards() int { return len(w.Shards) }

// IsMeta reports whether addr lives on the metachain in this universe.
func (w *World) IsMeta(addr []byte) bool {
	if bytes.Equal(addr, vmcommon.ESDTSCAddress) {
		return true
	}
	return w.Meta[string(addr)]
}

// ShardOf maps an address to its shard id (MetachainShardId for metachain addresses).
func (w *World) ShardOf(addr []byte) uint32 {
	if w.IsMeta(addr) {
		return vmcommon.MetachainShardId
	}
	if len(addr) == 0 {
		return 0
	}
	return uint32(addr[len(addr)-1]) % uint32(len(w.Shards))
}

// Get returns the account stored for addr on its own shard, or nil.
func (w *World) Get(addr []byte) *Account {
	sh := w.ShardOf(addr)
	if sh == vmcommon.MetachainShardId {
		return nil
	}
	return w.Shards[sh].Accts[string(addr)]
}

// GetOn returns the account stored for addr on the given shard (used for system accounts), or nil.
func (w *World) GetOn(shard uint32, addr []byte) *Account {
	if int(shard) >= len(w.Shards) {
		return nil
	}
	return w.Shards[shard].Accts[string(addr)]
}

// Ensure returns the (possibly freshly created) account for addr on its own shard.
func (w *World) Ensure(addr []byte) *Account {
	sh := w.ShardOf(addr)
	a := w.Shards[sh].Accts[string(addr)]
	if a == nil {
		a = NewAccount(addr)
		w.Shards[sh].Accts[string(addr)] = a
	}
	return a
}

// PayAnswer is the oracle's answer for addr: (payable, isError).
func (w *World) PayAnswer(addr []byte) (bool, bool) {
	switch w.Payable[string(addr)] {
	case PayYes:
		return true, false
	case PayNo:
		return false, false
	case PayError:
		return false, true
	}
	if vmcommon.IsSmartContractAddress(addr) {
		return false, false
	}
	return true, false
}

// SortInflight restores the canonical order of the in-flight pool.
func (w *World) SortInflight() {
	sort.SliceStable(w.Inflight, func(i, j int) bool {
		return bytes.Compare(w.Inflight[i].canon(), w.Inflight[j].canon()) < 0
	})
	sort.SliceStable(w.Stuck, func(i, j int) bool {
		return bytes.Compare(w.Stuck[i].canon(), w.Stuck[j].canon()) < 0
	})
}

func wb(b *bytes.Buffer, x []byte) {
	var l [4]byte
	binary.BigEndian.PutUint32(l[:], uint32(len(x)))
	b.Write(l[:])
	b.Write(x)
}

func wu(b *bytes.Buffer, x uint64) {
	var l [8]byte
	binary.BigEndian.PutUint64(l[:], x)
	b.Write(l[:])
}

// CanonBytes is the canonical serialisation of the world (DESIGN.md §3, E1 "canon"): shards in
// order, accounts sorted by address, storage sorted by key with raw bytes, account fields, the
// sorted in-flight and stuck multisets, the payability table and (optionally) the ghost.
func (w *World) CanonBytes(withGhost bool) []byte {
	var b bytes.Buffer
	for _, s := range w.Shards {
		wu(&b, uint64(s.ID))
		addrs := make([]string, 0, len(s.Accts))
		for k, a := range s.Accts {
			if a.Empty() {
				continue
			}
			addrs = append(addrs, k)
		}
		sort.Strings(addrs)
		wu(&b, uint64(len(addrs)))
		for _, k := range addrs {
			a := s.Accts[k]
			wb(&b, a.Addr)
			keys := make([]string, 0, len(a.Storage))
			for sk := range a.Storage {
				keys = append(keys, sk)
			}
			sort.Strings(keys)
			wu(&b, uint64(len(keys)))
			for _, sk := range keys {
				wb(&b, []byte(sk))
				wb(&b, a.Storage[sk])
			}
			wb(&b, []byte(a.Balance.String()))
			wb(&b, a.Owner)
			wb(&b, a.UserName)
			wb(&b, []byte(a.DevReward.String()))
			wu(&b, a.Nonce)
			wb(&b, a.CodeMetadata)
		}
	}
	wu(&b, uint64(len(w.Inflight)))
	for _, m := range w.Inflight {
		wb(&b, m.canon())
	}
	wu(&b, uint64(len(w.Stuck)))
	for _, m := range w.Stuck {
		wb(&b, m.canon())
	}
	pk := make([]string, 0, len(w.Payable))
	for k := range w.Payable {
		pk = append(pk, k)
	}
	sort.Strings(pk)
	for _, k := range pk {
		wb(&b, []byte(k))
		wu(&b, uint64(w.Payable[k]))
	}
	if withGhost {
		hk := make([]string, 0, len(w.Ghost.Highest))
		for k := range w.Ghost.Highest {
			hk = append(hk, k)
		}
		sort.Strings(hk)
		for _, k := range hk {
			wb(&b, []byte(k))
			wu(&b, w.Ghost.Highest[k])
		}
		ik := make([]string, 0, len(w.Ghost.Issued))
		for k := range w.Ghost.Issued {
			ik = append(ik, k)
		}
		sort.Strings(ik)
		for _, k := range ik {
			wb(&b, []byte(k))
			wb(&b, w.Ghost.Issued[k])
		}
		rk := make([]string, 0, len(w.Ghost.Roles))
		for k := range w.Ghost.Roles {
			rk = append(rk, k)
		}
		sort.Strings(rk)
		for _, k := range rk {
			wb(&b, []byte(k))
			wb(&b, []byte(w.Ghost.Roles[k]))
		}
	}
	return b.Bytes()
}

// Hash is SHA-256 of CanonBytes.
func (w *World) Hash(withGhost bool) [32]byte {
	return sha256.Sum256(w.CanonBytes(withGhost))
}

// ---------------------------------------------------------------------------------------------
// compact storage of frontier states (the explorer keeps encoded worlds, not object graphs)

type reader struct {
	b   []byte
	off int
}

func (r *reader) bytes() []byte {
	n := int(binary.BigEndian.Uint32(r.b[r.off:]))
	r.off += 4
	out := r.b[r.off : r.off+n]
	r.off += n
	return out
}

func (r *reader) u64() uint64 {
	v := binary.BigEndian.Uint64(r.b[r.off:])
	r.off += 8
	return v
}

func encodeMsgs(b *bytes.Buffer, ms []Msg) {
	wu(b, uint64(len(ms)))
	for _, m := range ms {
		wb(b, m.canon())
	}
}

func decodeMsg(raw []byte) Msg {
	r := &reader{b: raw}
	var m Msg
	m.From = append([]byte(nil), r.bytes()...)
	m.To = append([]byte(nil), r.bytes()...)
	m.Data = append([]byte(nil), r.bytes()...)
	if v := r.bytes(); len(v) > 0 {
		m.Value, _ = new(big.Int).SetString(string(v), 10)
	}
	m.GasLimit = r.u64()
	m.GasLocked = r.u64()
	m.CallType = vmcommon.CallType(r.u64())
	flags := r.u64()
	m.Refund, m.FromSys, m.OrigAsync = flags&1 != 0, flags&2 != 0, flags&4 != 0
	return m
}

// Encode serialises the complete world (ghost included) for compact storage.
func (w *World) Encode() []byte {
	var b bytes.Buffer
	wu(&b, uint64(len(w.Shards)))
	for _, s := range w.Shards {
		wu(&b, uint64(len(s.Accts)))
		for _, a := range s.Accts {
			wb(&b, a.Addr)
			wu(&b, uint64(len(a.Storage)))
			for k, v := range a.Storage {
				wb(&b, []byte(k))
				wb(&b, v)
			}
			wb(&b, a.Balance.Bytes())
			wb(&b, a.Owner)
			wb(&b, a.UserName)
			wb(&b, a.DevReward.Bytes())
			wu(&b, a.Nonce)
			wb(&b, a.CodeMetadata)
		}
	}
	encodeMsgs(&b, w.Inflight)
	encodeMsgs(&b, w.Stuck)
	wu(&b, uint64(len(w.Payable)))
	for k, v := range w.Payable {
		wb(&b, []byte(k))
		wu(&b, uint64(v))
	}
	wu(&b, uint64(len(w.Ghost.Highest)))
	for k, v := range w.Ghost.Highest {
		wb(&b, []byte(k))
		wu(&b, v)
	}
	wu(&b, uint64(len(w.Ghost.Issued)))
	for k, v := range w.Ghost.Issued {
		wb(&b, []byte(k))
		wb(&b, v)
	}
	wu(&b, uint64(len(w.Ghost.Roles)))
	for k, v := range w.Ghost.Roles {
		wb(&b, []byte(k))
		wb(&b, []byte(v))
	}
	return b.Bytes()
}

// Decode rebuilds a world from Encode's output; meta is the (constant) metachain address set.
func Decode(enc []byte, meta map[string]bool) *World {
	r := &reader{b: enc}
	w := &World{Payable: map[string]int8{}, Meta: meta}
	ns := int(r.u64())
	for i := 0; i < ns; i++ {
		sh := &Shard{ID: uint32(i), Accts: map[string]*Account{}}
		na := int(r.u64())
		for j := 0; j < na; j++ {
			a := NewAccount(r.bytes())
			nk := int(r.u64())
			for k := 0; k < nk; k++ {
				key := string(r.bytes())
				a.Storage[key] = append([]byte(nil), r.bytes()...)
			}
			a.Balance = new(big.Int).SetBytes(r.bytes())
			a.Owner = append([]byte(nil), r.bytes()...)
			a.UserName = append([]byte(nil), r.bytes()...)
			a.DevReward = new(big.Int).SetBytes(r.bytes())
			a.Nonce = r.u64()
			a.CodeMetadata = append([]byte(nil), r.bytes()...)
			sh.Accts[string(a.Addr)] = a
		}
		w.Shards = append(w.Shards, sh)
	}
	for k := 0; k < 2; k++ {
		n := int(r.u64())
		ms := make([]Msg, 0, n)
		for i := 0; i < n; i++ {
			ms = append(ms, decodeMsg(r.bytes()))
		}
		if k == 0 {
			w.Inflight = ms
		} else {
			w.Stuck = ms
		}
	}
	np := int(r.u64())
	for i := 0; i < np; i++ {
		k := string(r.bytes())
		w.Payable[k] = int8(r.u64())
	}
	w.Ghost = Ghost{Highest: map[string]uint64{}, Issued: map[string][]byte{}, Roles: map[string]string{}}
	nh := int(r.u64())
	for i := 0; i < nh; i++ {
		k := string(r.bytes())
		w.Ghost.Highest[k] = r.u64()
	}
	ni := int(r.u64())
	for i := 0; i < ni; i++ {
		k := string(r.bytes())
		w.Ghost.Issued[k] = append([]byte(nil), r.bytes()...)
	}
	nr := int(r.u64())
	for i := 0; i < nr; i++ {
		k := string(r.bytes())
		w.Ghost.Roles[k] = string(r.bytes())
	}
	return w
}

// GhostFlag reports a history flag kept next to the role records: kind "frozen" (who = account
// address) or "paused" (who = shard id as one byte), as the system contract's accepted controls
// left it.
func (w *World) GhostFlag(kind string, who []byte, tok string) bool {
	return w.Ghost.Roles["\x00"+kind+"|"+string(who)+"|"+tok] != ""
}

// GhostFlags lists the set flags of a kind as (who, token) pairs.
func (w *World) GhostFlags(kind string) [][2]string {
	var out [][2]string
	pre := "\x00" + kind + "|"
	for k := range w.Ghost.Roles {
		if strings.HasPrefix(k, pre) {
			rest := k[len(pre):]
			if i := strings.Index(rest, "|"); i >= 0 {
				// who may itself contain '|' only for addresses; addresses are 32 bytes, shards 1 byte
				n := 32
				if kind == "paused" {
					n = 1
				}
				if len(rest) > n && rest[n] == '|' {
					out = append(out, [2]string{rest[:n], rest[n+1:]})
				}
			}
		}
	}
	return out
}

func (w *World) ghostSetFlag(kind string, who []byte, tok string, on bool) {
	k := "\x00" + kind + "|" + string(who) + "|" + tok
	if on {
		w.Ghost.Roles[k] = "1"
	} else {
		delete(w.Ghost.Roles, k)
	}
}

// GhostHasRole reports whether the system contract's record says acct holds role for tok.
func (w *World) GhostHasRole(acct []byte, tok, role string) bool {
	for _, r := range strings.Split(w.Ghost.Roles[string(acct)+"|"+tok], ",") {
		if r == role {
			return true
		}
	}
	return false
}

func (w *World) ghostSetRoles(acct []byte, tok string, add, remove []string) {
	k := string(acct) + "|" + tok
	var cur []string
	if w.Ghost.Roles[k] != "" {
		cur = strings.Split(w.Ghost.Roles[k], ",")
	}
	for _, r := range remove {
		for i, x := range cur {
			if x == r {
				cur = append(cur[:i], cur[i+1:]...)
				break
			}
		}
	}
	for _, r := range add {
		found := false
		for _, x := range cur {
			if x == r {
				found = true
			}
		}
		if !found {
			cur = append(cur, r)
		}
	}
	sort.Strings(cur)
	if len(cur) == 0 {
		delete(w.Ghost.Roles, k)
		return
	}
	w.Ghost.Roles[k] = strings.Join(cur, ",")
}
